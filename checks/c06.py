"""C06 The glyph set, glyph order and cmap are exactly what the source declares.

Decided by spec/GlyphSet.tla:
 (M) TLC runs the pipeline of the spec (PreliminaryOrder -> InlineNonExport -> DropNonExport -> Derive ->
     EnsureNotdef -> BuildCmap -> PostNames) on every generated abstract source and checks the property
     invariants (P_GlyphSet, P_NotdefFirst, P_DeclaredOrder, P_DerivedLast, P_NonExportNowhere, P_Cmap, P_Post)
     in the final state;
 (R) every final state is printed as a REPLAY line (abstract source + expected order / cmap / post names /
     components / layout glyphs); this file turns the source into a MiniFont UFO (checks/minifont.py), compiles
     it with the real fontc through `vh glyphset` (library entry point) and compares what is read back from the
     binary: maxp.numGlyphs, hmtx advances (every source glyph has its own advance: the identity of a glyph
     independent of its post name), every cmap subtable, glyf component targets, GPOS pair / GSUB single glyph
     ids, post names;
 (O) a few repository fixtures whose expectation follows from the source text alone (observation mode).

PROPERTY-LEVEL (ctx.violation): number of glyphs, identity of the glyph at each glyph id (.notdef first, declared
order, sorted leftovers), a cmap entry missing / extra / on the wrong glyph in any subtable, a component or a
kerning pair / substitution on a glyph the source does not put it on, post names missing / duplicated / different
from the source name (or from the production name where that is unambiguous), error or panic on a valid source.
INTERNAL (ctx.drift): where derived glyphs (g.0) sit and what they are called, how colliding production names are
made unique, composite vs decomposed outlines, order of components, what happens to a codepoint that two
exported glyphs claim (the spec's transcription says: Cmap::from_mappings refuses; the property does not speak
about a contradictory source).
"""
import json, os, shutil, time, hashlib, concurrent.futures
import common, minifont

SPEC = "GlyphSet"
NAMES = [".notdef", "a", "b", "c", "d"]
WIDTH = {n: 600 + 20 * i for i, n in enumerate(NAMES)}       # identity of a source glyph in hmtx
GENERATED_NOTDEF_WIDTH = 500                                 # upem / 2 (synthesize_notdef)
MAX_REPORTED = 25

# tier -> list of (cfg, env C06_N or None (= exhaustive slice), TLC timeout)
PLAN = {
    "quick": [("GlyphSetCore.cfg", None, 900), ("GlyphSetSim.cfg", 1200, 900)],
    "thorough": [("GlyphSetCore.cfg", None, 1500), ("GlyphSetSim.cfg", 3000, 1500),
                 ("GlyphSetGlyphs.cfg", None, 1500), ("GlyphSetNames.cfg", None, 1500),
                 ("GlyphSetComps.cfg", None, 1500), ("GlyphSetCmap.cfg", None, 1500),
                 ("GlyphSetOrders.cfg", None, 1500)],
}
# thorough: no new chunk of compiles / batch of samples is started after this many seconds; what was not
# reached is recorded as incomplete in the evidence (the verdict does not depend on it)
THOROUGH_BUDGET_S = 21 * 60
EXTRA_SAMPLE_BATCH = 4000


# ----------------------------------------------------------------------------- case -> source


def as_map(v):
    """ToJson prints a function with an empty domain as []"""
    return v if isinstance(v, dict) else {}


def src_key(src):
    return json.dumps(src, sort_keys=True, separators=(",", ":"))


def src_brief(src):
    g = []
    for n in src["present"]:
        s = n
        if n in src["skip"]:
            s += "!"
        cps = as_map(src["cps"]).get(n) or []
        if cps:
            s += "=" + "+".join("%X" % c for c in cps)
        comps = as_map(src["comps"]).get(n) or []
        if comps:
            s += "(" + " ".join(comps) + ")"
        if not as_map(src["contours"]).get(n, True):
            s += "~"
        g.append(s)
    o = ",".join(src["declared"]) if src["has_order"] else "-"
    f = ("S" if src["prefer_simple"] else "s") + ("P" if src["prod_names"] else "p")
    ps = json.dumps(as_map(src["ps_map"]), sort_keys=True, separators=(",", ":")) if src["has_ps"] else "-"
    return "%s glyphs[%s] order[%s] flags[%s] ps%s layout[%s]" % (src.get("route", "ufo"), " ".join(g), o, f, ps,
                                                                   src["layout"])


def kern_value(i):
    return -10 * (i + 1)


def to_minifont(src):
    comps, contours, cps = as_map(src["comps"]), as_map(src["contours"]), as_map(src["cps"])
    glyphs = []
    for n in src["present"]:
        layer = {"width": WIDTH[n]}
        if contours.get(n, True):
            layer["contours"] = [minifont.square(50, 0, 50 + 10 * (NAMES.index(n) + 1), 700)]
        if comps.get(n):
            layer["components"] = [{"base": b, "xform": [1, 0, 0, 1, 30 * (k + 1), 0]}
                                   for k, b in enumerate(comps[n])]
        glyphs.append({"name": n, "unicodes": sorted(cps.get(n) or []), "layers": {"Regular": layer}})
    master = {"name": "Regular", "style": "Regular", "loc": {}}
    kern = sorted(tuple(p) for p in src["kern"])
    if kern:
        k = {}
        for i, (l, r) in enumerate(kern):
            k.setdefault(l, {})[r] = kern_value(i)
        master["kerning"] = k
    if src["fea"]:
        master["features"] = "".join("feature ss01 {\n  sub %s by %s;\n} ss01;\n" % (x, y) for x, y in src["fea"])
    mf = {"family": "Mini", "axes": [], "masters": [master], "glyphs": glyphs, "as_ufo": True, "lib": {}}
    if src["has_order"]:
        mf["glyph_order"] = list(src["declared"])
    if src["skip"]:
        mf["skip_export"] = list(src["skip"])
    if src["has_ps"]:
        mf["lib"]["public.postscriptNames"] = dict(as_map(src["ps_map"]))
    return mf


def q(name):
    return '"%s"' % name


def to_glyphs_text(src):
    """The same abstract source as a Glyphs 3 file: glyphs listed in src["file_order"], `export = 0;` for
    skipExportGlyphs, the glyphOrder custom parameter for the declared order, `production` for the
    postscriptNames of glyphs that exist, kerningLTR and a features entry for the layout fragments."""
    comps, contours, cps = as_map(src["comps"]), as_map(src["contours"]), as_map(src["cps"])
    ps = as_map(src["ps_map"]) if src["has_ps"] else {}
    o = ["{", '.appVersion = "3226";', ".formatVersion = 3;"]
    if src["has_order"]:
        o += ["customParameters = (", "{", "name = glyphOrder;", "value = ("]
        o += [",\n".join(q(n) for n in src["declared"])] if src["declared"] else []
        o += [");", "}", ");"]
    o.append("familyName = Mini;")
    if src["fea"]:
        o += ["features = ("]
        o += [",\n".join('{\ncode = "sub %s by %s;";\ntag = ss01;\n}' % (x, y) for x, y in src["fea"])]
        o += [");"]
    o += ["fontMaster = (", "{", "id = m01;", "metricValues = (", "{\npos = 800;\n},", "{\npos = 700;\n},",
          "{\npos = 500;\n},", "{\n},", "{\npos = -200;\n}", ");", "name = Regular;", "}", ");"]
    glyphs = []
    for n in src["file_order"]:
        g = ["{"]
        if n in src["skip"]:
            g.append("export = 0;")
        g.append("glyphname = %s;" % q(n))
        g += ["layers = (", "{", "layerId = m01;"]
        shapes = []
        for k, b in enumerate(comps.get(n) or []):
            shapes.append("{\npos = (%d,0);\nref = %s;\n}" % (30 * (k + 1), q(b)))
        if contours.get(n, True):
            x1 = 50 + 10 * (NAMES.index(n) + 1)
            shapes.append("{\nclosed = 1;\nnodes = (\n(50,0,l),\n(%d,0,l),\n(%d,700,l),\n(50,700,l)\n);\n}" % (x1, x1))
        if shapes:
            g += ["shapes = (", ",\n".join(shapes), ");"]
        g += ["width = %d;" % WIDTH[n], "}", ");"]
        if n in ps:
            g.append("production = %s;" % q(ps[n]))
        u = sorted(cps.get(n) or [])
        if len(u) == 1:
            g.append("unicode = %d;" % u[0])
        elif u:
            g.append("unicode = (%s);" % ",".join(str(c) for c in u))
        g.append("}")
        glyphs.append("\n".join(g))
    o += ["glyphs = (", ",\n".join(glyphs), ");"]
    kern = sorted(tuple(p) for p in src["kern"])
    if kern:
        k = {}
        for i, (l, r) in enumerate(kern):
            k.setdefault(l, {})[r] = kern_value(i)
        o += ["kerningLTR = {", "m01 = {"]
        for l in sorted(k):
            o += ["%s = {" % q(l)] + ["%s = %d;" % (q(r), v) for r, v in sorted(k[l].items())] + ["};"]
        o += ["};", "};"]
    o += ["metrics = (", "{\ntype = ascender;\n},", "{\ntype = \"cap height\";\n},", "{\ntype = \"x-height\";\n},",
          "{\ntype = baseline;\n},", "{\ntype = descender;\n}", ");",
          "unitsPerEm = 1000;", "versionMajor = 1;", "versionMinor = 0;", "}"]
    return "\n".join(o) + "\n"


def request_for(src, tag, ufo):
    no = []
    if not src["prefer_simple"]:
        no.append("prefer_simple")
    if not src["prod_names"]:
        no.append("production_names")
    return {"tag": tag, "src": ufo, "threads": 1, "no_flags": no}


def _prepare(args):
    src, tag, d = args
    if src.get("route") == "glyphs":
        os.makedirs(d, exist_ok=True)
        path = os.path.join(d, "Mini.glyphs")
        with open(path, "w", encoding="utf-8") as f:
            f.write(to_glyphs_text(src))
        return request_for(src, tag, path)
    ufo = minifont.materialize(to_minifont(src), d)
    return request_for(src, tag, ufo)


# ----------------------------------------------------------------------------- comparison


class Judge:
    def __init__(self, ctx):
        self.ctx = ctx
        self.compared = 0
        self.evaluations = 0
        self.kinds = {}
        self.drifts = {}
        self.effects = {}
        self.conflict_agree = 0
        self.reported = 0

    def effect(self, name):
        self.effects[name] = self.effects.get(name, 0) + 1

    def drift(self, kind, case, what):
        self.drifts[kind] = self.drifts.get(kind, 0) + 1
        if self.drifts[kind] <= 2:
            self.ctx.drift(SPEC, "%s: %s | %s" % (kind, what, src_brief(case["src"])))

    def violation(self, kind, case, obs, what, cause=""):
        """signature = <kind>[/<input class>]: [<outcome class> | ]<the source>  (prefix-matchable)"""
        self.kinds[kind] = self.kinds.get(kind, 0) + 1
        self.reported += 1
        sig = "%s: %s%s" % (kind, (cause + " | ") if cause else "", src_brief(case["src"]))
        known = any(k.get("status") == "open" and sig.startswith(k["signature"]) for k in self.ctx.known)
        if known or self.reported <= MAX_REPORTED:
            # (a known finding prints its KNOWN-FINDING line once and writes no replay file)
            if not self.ctx.violation(sig, "%s | source: %s" % (what, src_brief(case["src"])),
                                      {"case": case, "observed": obs}):
                self.reported -= 1
        else:
            self.ctx.violations.append((sig, "", what))     # counted, no further replay files

    # -- one case
    def compare(self, case, obs):
        src, exp = case["src"], case["exp"]
        order = exp["order"]
        self.compared += 1
        out = obs.get("outcome")
        # input class of a failure: names the one feature of the source that is known to matter
        icls = "/notdef_in_skipExportGlyphs" if ".notdef" in src["skip"] else ""
        if out in ("panic", "crash", "unreadable", "bad_request") or out is None:
            return self.violation("abnormal_" + str(out) + icls, case, obs,
                                  "compiler outcome %s: %s" % (out, (obs.get("message") or "")[:300]),
                                  cause=(obs.get("message") or "")[:160])
        shared = set(exp["conflicts"])
        if exp["outcome"] == "cmap_conflict":
            if out == "error":
                if "two different glyph ids" in obs.get("message", ""):
                    self.conflict_agree += 1
                else:
                    self.drift("conflict_other_error", case, "codepoint on two exported glyphs: error is %r"
                               % obs.get("message", "")[:200])
                return
            self.drift("conflict_accepted", case, "codepoint(s) %s on two exported glyphs accepted; mapped to %s"
                       % (sorted(shared), [[c, g] for st in obs["cmap"] for c, g in st["map"] if c in shared]))
        elif out == "error":
            return self.violation("compile_failure" + icls, case, obs,
                                  "valid source rejected: %s" % obs.get("message", "")[:300],
                                  cause=obs.get("message", "")[:160])

        gid = {n: i for i, n in enumerate(order)}
        derived = set(exp["derived"])

        def width_of(n):
            if n in derived:
                return WIDTH[n.rsplit(".", 1)[0]]
            if n == ".notdef" and exp["generated_notdef"]:
                return GENERATED_NOTDEF_WIDTH
            return WIDTH[n]

        # 1. glyph set and order, by identity
        self.evaluations += 1
        want_adv = [width_of(n) for n in order]
        adv = obs["advances"]
        ng = obs["num_glyphs"]
        glyf = obs["glyf"]
        if ng != len(order) or adv != want_adv:
            # only the derived glyphs somewhere else?
            obs_derived = set()
            cmapped = {g for st in obs["cmap"] for _, g in st["map"]}
            for p, rec in enumerate(glyf):
                for d in rec["comps"]:
                    if d < ng and adv[d] == adv[p] and glyf[d]["kind"] == "simple" and d not in cmapped \
                            and adv.count(adv[d]) == 2:
                        obs_derived.add(d)
            a = [w for i, w in enumerate(adv) if i not in obs_derived]
            b = [width_of(n) for n in order if n not in derived]
            if derived and a == b and len(obs_derived) == len(derived):
                self.drift("derived_position", case, "derived glyphs at %s, spec %s"
                           % (sorted(obs_derived), sorted(gid[n] for n in derived)))
                return
            name_of_w = {v: k for k, v in WIDTH.items()}
            name_of_w[GENERATED_NOTDEF_WIDTH] = ".notdef(generated)"
            seen = [name_of_w.get(w, "?%s" % w) for w in adv]
            kind = "glyph_set" if sorted(adv) != sorted(want_adv) else ("notdef_not_first" if want_adv[0] != adv[0]
                                                                        else "glyph_order")
            return self.violation(kind, case, obs, "glyphs by identity (advance) are %s, the source says %s"
                                  % (seen, order))

        # 2. cmap, every subtable.  A cmap is a total function codepoint -> glyph id in which "not listed" and
        # "glyph 0" are the same answer (format 4 cannot even tell them apart), so entries on gid 0 (.notdef)
        # are dropped on both sides before comparing.
        want = {c: gid[g] for c, g in exp["cmap"] if gid[g] != 0}
        nonexport_cps = {c for n in src["skip"] for c in (as_map(src["cps"]).get(n) or [])}
        for st in obs["cmap"]:
            self.evaluations += 1
            if st["format"] not in (4, 12):
                self.drift("cmap_format", case, "subtable format %s" % st["format"])
                continue
            m = {c: g for c, g in st["map"] if g != 0}
            w = {c: g for c, g in want.items() if st["format"] == 12 or c <= 0xFFFF}
            where = "cmap subtable (%d,%d) format %d" % (st["platform"], st["encoding"], st["format"])
            for c in sorted(set(w) | set(m)):
                if c in shared:
                    continue
                if c not in m:
                    return self.violation("cmap_missing", case, obs, "%s: U+%04X should map to %s (gid %d), is not "
                                          "mapped" % (where, c, order[w[c]], w[c]))
                if c not in w:
                    k = "cmap_nonexport_leak" if c in nonexport_cps else "cmap_extra"
                    return self.violation(k, case, obs, "%s: U+%04X maps to gid %d (%s), the source gives it to no "
                                          "exported glyph" % (where, c, m[c], order[m[c]] if m[c] < ng else "?"))
                if m[c] != w[c]:
                    return self.violation("cmap_wrong_glyph", case, obs, "%s: U+%04X maps to gid %d (%s), should "
                                          "be gid %d (%s)" % (where, c, m[c], order[m[c]] if m[c] < ng else "?",
                                                              w[c], order[w[c]]))
        covered = {c for st in obs["cmap"] for c, g in st["map"] if g != 0}
        for c in want:
            if c not in covered and c not in shared:
                return self.violation("cmap_missing", case, obs, "U+%04X (%s) is in no cmap subtable"
                                      % (c, order[want[c]]))

        # 3. components: targets must be glyphs the source puts there
        for i, n in enumerate(order):
            self.evaluations += 1
            wc = [gid[c] for c in exp["comps"][i]]
            oc = glyf[i]["comps"]
            bad = [c for c in oc if c not in wc]
            if bad:
                return self.violation("component_target", case, obs, "glyph %s (gid %d) has components %s, the "
                                      "source (non-export glyphs inlined) gives %s"
                                      % (n, i, [order[c] if c < ng else c for c in oc], exp["comps"][i]))
            if glyf[i]["kind"] != exp["kinds"][i]:
                self.drift("glyph_kind", case, "glyph %s is %s, spec %s" % (n, glyf[i]["kind"], exp["kinds"][i]))
            elif oc != wc:
                self.drift("component_order", case, "glyph %s components %s, spec %s" % (n, oc, wc))

        # 4. layout glyph ids
        if src["layout"] in ("kern", "both"):
            self.evaluations += 1
            kern = sorted(tuple(p) for p in src["kern"])
            value = {p: kern_value(i) for i, p in enumerate(kern)}
            wk = sorted((gid[l], gid[r], value[(l, r)]) for l, r in (tuple(p) for p in exp["kern"]))
            ok_ = sorted(tuple(p) for st in (obs["gpos"] or []) for p in st["pairs"])
            if wk != ok_:
                return self.violation("layout_kern", case, obs, "GPOS pairs (gid, gid, value) are %s, the source's "
                                      "kerning between exported glyphs is %s" % (ok_, wk))
            for st in obs["gpos"] or []:
                if st["cov"] is None:
                    self.drift("gpos_lookup_type", case, "lookup type %s" % st["type"])
        elif obs["gpos"]:
            self.drift("gpos_unexpected", case, "GPOS without kerning: %s" % obs["gpos"])
        if src["layout"] in ("fea", "both"):
            self.evaluations += 1
            wf = sorted((gid[x], gid[y]) for x, y in exp["fea"])
            of = sorted(tuple(p) for st in (obs["gsub"] or []) for p in st["single"])
            cov = sorted(g for st in (obs["gsub"] or []) for g in (st["cov"] or []))
            if wf != of or cov != sorted(x for x, _ in wf):
                return self.violation("layout_gsub", case, obs, "GSUB single substitutions are %s (coverage %s), "
                                      "features.fea says %s" % (of, cov, wf))
        elif obs["gsub"]:
            self.drift("gsub_unexpected", case, "GSUB without features: %s" % obs["gsub"])

        # 5. post names
        self.evaluations += 1
        post = obs["post"]
        names = post["names"]
        if post["version"] != [2, 0] or post["num_glyphs"] != ng or any(n is None for n in names):
            return self.violation("post_count", case, obs, "post version %s with %s names for %d glyphs"
                                  % (post["version"], post["num_glyphs"], ng))
        if len(set(names)) != len(names):
            return self.violation("post_not_unique", case, obs, "post names %s" % names)
        if names != exp["post"]:
            soft = []
            for i, (a, b) in enumerate(zip(names, exp["post"])):
                if a == b:
                    continue
                if order[i] in derived or not exp["post_firm"][i]:
                    soft.append((i, a, b))
                else:
                    return self.violation("post_names", case, obs, "post name of gid %d (%s) is %r, should be %r; "
                                          "all: %s" % (i, order[i], a, b, names))
            self.drift("derived_or_uniquified_name", case, "(gid, font, spec): %s" % soft)
        return None


# ----------------------------------------------------------------------------- driver


def nontrivial(case):
    src, exp = case["src"], case["exp"]
    plain = [".notdef"] + [n for n in src["present"] if n != ".notdef"]
    return (exp["order"] != plain or bool(src["skip"]) or bool(exp["derived"]) or exp["renaming"]
            or any(len(v or []) > 1 for v in as_map(src["cps"]).values()))


def note_effects(j, case):
    src, exp = case["src"], case["exp"]
    comps = as_map(src["comps"])
    if src["has_order"] and any(n in src["present"] for n in src["declared"]):
        j.effect("declared_order_used")
    if set(src["present"]) - set(src["declared"]):
        j.effect("leftovers_sorted")
    if any(b in src["skip"] for n in src["present"] if n not in src["skip"] for b in comps.get(n) or []):
        j.effect("non_export_inlined")
    if src["skip"]:
        j.effect("non_export_dropped")
    if exp["derived"]:
        j.effect("glyph_derived")
    j.effect("notdef_" + exp["notdef"])
    if exp["cmap"]:
        j.effect("cmap_built")
    if any(c > 0xFFFF for c, _ in exp["cmap"]):
        j.effect("cmap_supplementary")
    if exp["outcome"] != "ok":
        j.effect("cmap_conflict")
    if exp["renaming"]:
        j.effect("post_renamed")
    if exp["kern"]:
        j.effect("kerning")
    if exp["fea"]:
        j.effect("gsub")


def generate(ctx, cfg, n, timeout, seed_env=None, workers=2):
    env = {"C06_SEED": seed_env if seed_env is not None else ctx.seed}
    if n is not None:
        env["C06_N"] = n
    r = common.run_tlc(ctx, SPEC, cfg, workers=workers, timeout=timeout, env=env, deadlock=False,
                       tag="%s_%s" % (cfg.replace(".cfg", ""), env["C06_SEED"]))
    if r.timed_out:
        raise common.ToolError("TLC timed out on %s after %ds" % (cfg, timeout))
    if r.violated:
        # the spec's own pipeline breaks the property invariants: a mistake in the specification
        raise common.ToolError("spec %s violates its invariant %s:\n%s"
                               % (cfg, r.violated, common.tlc_trace_text(r.out, 60)))
    if r.error or not r.complete:
        raise common.ToolError("TLC failed on %s: %s" % (cfg, r.error or "incomplete"))
    cases = common.replay_lines(r.out)
    if not cases:
        raise common.ToolError("TLC produced no case for %s" % cfg)
    cases.sort(key=lambda c: (c["k"], src_key(c["src"])))
    common.log("%s: %d cases from TLC (%d states, %.0fs)" % (cfg, len(cases), r.distinct, r.wall))
    return cases


def out_of_time(ctx):
    return (not ctx.quick) and time.time() - ctx.t0 > THOROUGH_BUDGET_S


def run_cases(ctx, j, cases, label, procs=8, chunk=1000):
    """Materialise, compile and compare; returns the number of cases done (all, unless the thorough budget ran
    out between two chunks)."""
    t0 = time.time()
    done = 0
    with concurrent.futures.ProcessPoolExecutor(max_workers=4) as pool:
        for lo in range(0, len(cases), chunk):
            if lo > 0 and out_of_time(ctx):
                break
            part = cases[lo:lo + chunk]
            root = os.path.join(ctx.work, "cases", label, "%d" % lo)
            os.makedirs(root, exist_ok=True)
            jobs = [(c["src"], "%s/%d" % (label, lo + i), os.path.join(root, "%d" % i)) for i, c in enumerate(part)]
            reqs = list(pool.map(_prepare, jobs, chunksize=50))
            res = common.vh_batch(reqs, procs=procs, module="glyphset", timeout=1800)
            for c, o in zip(part, res):
                if o is None:
                    raise common.ToolError("no result for a request (harness died?)")
                j.compare(c, o)
            done += len(part)
            shutil.rmtree(root, ignore_errors=True)
    common.log("%s: %d of %d fonts compiled and compared in %.0fs; violations so far: %s"
               % (label, done, len(cases), time.time() - t0, dict(j.kinds) or 0))
    return done


def main(ctx):
    common.build_harness()
    ev = ctx.ev
    ev.rule = ("cases = final states of spec/GlyphSet.tla (abstract source + expected observation) generated by TLC: "
               "complete enumeration of the slice configs, seeded pseudo-random sampling of the full universe; each "
               "distinct source is compiled once and compared. Non-trivial: a case counts when its final glyph order differs from .notdef + the present glyphs in name order, "
               "or a glyph is not exported, or a glyph is derived, or production names rename, or a glyph has "
               "two codepoints")
    j = Judge(ctx)

    if ctx.replay:
        rep = json.load(open(ctx.replay))["replay"]
        case = rep["case"]
        run_cases(ctx, j, [case], "replay", procs=1)
        ev.traces, ev.evaluations = j.compared, j.compared
        ev.sample({"replayed": src_brief(case["src"])})
        return

    seen = set()
    per_cfg = {}

    def one(cfg, n, cases, label=None):
        label = label or cfg.replace(".cfg", "")
        fresh = []
        for c in cases:
            key = src_key(c["src"])
            if key in seen:
                continue
            seen.add(key)
            fresh.append(c)
        done = run_cases(ctx, j, fresh, label)
        for c in fresh[:done]:
            note_effects(j, c)
            if nontrivial(c):
                ev.nontrivial_add(hashlib.sha1(src_key(c["src"]).encode()).hexdigest()[:16])
        per_cfg[label] = {"cases": len(cases), "distinct_new": len(fresh), "compared": done,
                          "kind": "sampled" if n is not None else "exhaustive slice",
                          "complete": done == len(fresh)}
        for c in fresh[:2]:
            ev.sample({"cfg": cfg, "source": src_brief(c["src"]), "expected_order": c["exp"]["order"],
                       "expected_cmap": c["exp"]["cmap"], "expected_post": c["exp"]["post"]}, limit=8)

    # TLC generates ahead (two runs of 2 workers at a time) while the previous configs are compiled
    with concurrent.futures.ThreadPoolExecutor(max_workers=2) as tlc_pool:
        futs = [(cfg, n, tlc_pool.submit(generate, ctx, cfg, n, timeout)) for cfg, n, timeout in PLAN[ctx.tier]]
        for cfg, n, fut in futs:
            if out_of_time(ctx):
                fut.cancel()
                per_cfg[cfg.replace(".cfg", "")] = {"cases": 0, "compared": 0, "complete": False,
                                                    "kind": "not reached within the time budget"}
                common.log("%s: not reached within the time budget" % cfg)
                continue
            one(cfg, n, fut.result())
    batch = 0
    while not ctx.quick and not out_of_time(ctx) and batch < 8:
        # more samples of the full universe while there is time (their own seeds, derived from VERIF_SEED)
        batch += 1
        one("GlyphSetSim.cfg", EXTRA_SAMPLE_BATCH,
            generate(ctx, "GlyphSetSim.cfg", EXTRA_SAMPLE_BATCH, 1500, seed_env=ctx.seed * 10 + batch + 1000,
                     workers=4), label="GlyphSetSim+%d" % batch)
    ev.traces = j.compared
    ev.evaluations = j.compared
    ev.extra["observables_compared"] = j.evaluations
    ev.exhaustive = False      # the universe as a whole is sampled; the Core/Orders/Comps/Cmap/Names slices are complete
    ev.extra["per_config"] = per_cfg
    ev.extra["action_effects"] = j.effects
    ev.extra["cmap_conflict_cases_refused_by_compiler"] = j.conflict_agree
    ev.extra["drift_counts"] = j.drifts
    ev.extra["violation_kinds"] = j.kinds
    ev.assumptions = [
        "single-master UFO sources compiled directly (public.skipExportGlyphs is read from the UFO lib only then)",
        "a glyph is identified in the binary by its advance width (each source glyph gets its own)",
        "component cycles and references to missing glyphs are outside this universe (C15 / C12)",
    ]
    missing = [e for e in ("declared_order_used", "leftovers_sorted", "non_export_inlined", "non_export_dropped",
                           "glyph_derived", "notdef_generated", "notdef_moved", "cmap_built", "cmap_supplementary",
                           "post_renamed", "kerning", "gsub") if not j.effects.get(e)]
    if missing:
        raise common.ToolError("vacuous run: no generated case exercises %s" % missing)
