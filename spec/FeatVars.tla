------------------------------ MODULE FeatVars ------------------------------
(***************************************************************************)
(* Property C16: conditional substitutions (designspace <rules>) fire      *)
(* exactly where the source rules say.                                      *)
(*                                                                          *)
(*  1. Property semantics: RuleSubs(rules, p).                              *)
(*  2. Transcription of the implementation:                                 *)
(*       fontir/src/feature_variations.rs   NBox::insert / cleanup /        *)
(*           overlay_onto, Region::cleanup_and_normalize, Rank (a vector of *)
(*           64-bit words), merge_same_sub_rules, merge_same_region_rules,  *)
(*           overlay_feature_variations                                     *)
(*       fontbe/src/features/feature_variations.rs   one lookup per         *)
(*           distinct substitution map in sorted-map order, condition sets  *)
(*       fea-rs feature_writer.rs / compile_ctx.rs   variations keyed by    *)
(*           condition set (a later identical condition set overwrites),    *)
(*           records sorted by first registration                           *)
(*       OpenType   first matching FeatureVariationRecord wins; lookups of  *)
(*           the feature are applied in lookup-list order                   *)
(*  3. Case generators (exhaustive families, seeded pseudo-random families, *)
(*     a structured >64-rules family) and the REPLAY emission.              *)
(*  4. Observation mode: the boxes returned by the real                     *)
(*     overlay_feature_variations are interpreted by the back-end           *)
(*     transcription of this module (FV_OBS).                               *)
(*                                                                          *)
(* All coordinates are integers in F2Dot14 units (16384 = 1.0): the grid    *)
(* {-1,-1/2,0,1/2,1}, the cell midpoints and "one quantum inside/outside"   *)
(* are exact, no rationals are needed.                                      *)
(***************************************************************************)
EXTENDS Integers, Sequences, FiniteSets, TLC, Json, IOUtils

CONSTANTS Families,  \* sequence of [name |-> STRING, n |-> Nat]; substituted in the .cfg files
          RankFixed  \* FALSE: Rank as in the code today (finding KF2); TRUE: Rank after the proposed fix
                     \* (|= aligned at the end, boxes sorted by descending number of one bits)

U == 16384
BP == <<-16384, -8192, 0, 8192, 16384>>

\* (% and + have overlapping precedence ranges in TLA+: always parenthesise)
Mod1(x, n) == (x % n) + 1
Max(a, b) == IF a >= b THEN a ELSE b
Min(a, b) == IF a <= b THEN a ELSE b

RECURSIVE SeqLessR(_, _, _)
SeqLessR(s, t, k) ==
    IF k > Len(s) THEN k <= Len(t)
    ELSE IF k > Len(t) THEN FALSE
    ELSE IF s[k] < t[k] THEN TRUE
    ELSE IF s[k] > t[k] THEN FALSE
    ELSE SeqLessR(s, t, k + 1)
\* lexicographic order on integer sequences, a proper prefix is smaller (Rust Ord on iterators)
SeqLess(s, t) == SeqLessR(s, t, 1)

RECURSIVE SortedSeqR(_)
SortedSeqR(S) == IF S = {} THEN <<>>
                 ELSE LET m == CHOOSE x \in S : \A y \in S : x <= y IN <<m>> \o SortedSeqR(S \ {m})
SortedSeq(S) == SortedSeqR(S)

RECURSIVE FlattenR(_, _)
FlattenR(ss, k) == IF k > Len(ss) THEN <<>> ELSE ss[k] \o FlattenR(ss, k + 1)
Flatten(ss) == FlattenR(ss, 1)

Reverse(s) == TLCEval([k \in 1..Len(s) |-> s[Len(s) + 1 - k]])

\* stable insertion sort of records [k |-> integer sequence, v |-> anything] by k (Rust sort / sort_by_key)
InsertByKey(sorted, e) ==
    LET n == Cardinality({j \in 1..Len(sorted) : ~SeqLess(e.k, sorted[j].k)})
    IN SubSeq(sorted, 1, n) \o <<e>> \o SubSeq(sorted, n + 1, Len(sorted))
RECURSIVE SortByKeyR(_, _, _)
SortByKeyR(s, k, acc) == IF k > Len(s) THEN acc ELSE SortByKeyR(s, k + 1, InsertByKey(acc, s[k]))
SortByKey(s) == SortByKeyR(s, 1, <<>>)

-----------------------------------------------------------------------------
(* Glyph names and their byte order (BTreeMap<GlyphName, GlyphName> order).  *)
(* Filler names have a fixed width so that string order = numeric order.     *)
NFill == 70
GlyphSeq == <<"a", "a1", "a2", "b", "b1">>
            \o TLCEval([i \in 1..NFill |-> "f" \o ToString(100 + i)])
            \o TLCEval([i \in 1..NFill |-> "g" \o ToString(100 + i)])
GlyphOrd == TLCEval([g \in {GlyphSeq[i] : i \in 1..Len(GlyphSeq)} |-> CHOOSE i \in 1..Len(GlyphSeq) : GlyphSeq[i] = g])
GlyphsSorted(S) == LET o == SortedSeq({GlyphOrd[g] : g \in S}) IN TLCEval([k \in 1..Len(o) |-> GlyphSeq[o[k]]])

MkMap(pairs) == TLCEval([g \in {pr[1] : pr \in pairs} |-> (CHOOSE pr \in pairs : pr[1] = g)[2]])
EmptyMap == TLCEval([g \in {} |-> ""])
\* m2's entries overwrite m1's (BTreeMap::extend)
Extend(m1, m2) == TLCEval([g \in DOMAIN m1 \cup DOMAIN m2 |-> IF g \in DOMAIN m2 THEN m2[g] ELSE m1[g]])
\* entries of m1 win
LeftMerge(m1, m2) == Extend(m2, m1)
MapKey(m) == LET ks == GlyphsSorted(DOMAIN m)
             IN Flatten(TLCEval([k \in 1..Len(ks) |-> <<GlyphOrd[ks[k]], GlyphOrd[m[ks[k]]]>>]))

-----------------------------------------------------------------------------
(* 1. PROPERTY SEMANTICS                                                     *)
(* A condition is [ax, lo, hi, hasLo, hasHi]; a condition set is a sequence  *)
(* of conditions (all must hold); a rule is [conds |-> sequence of condition *)
(* sets (one must hold), subs |-> map].  A point is a sequence of            *)
(* normalized coordinates.                                                   *)
CondHolds(c, p) == (c.hasLo => c.lo <= p[c.ax]) /\ (c.hasHi => p[c.ax] <= c.hi)
CondSetHolds(cs, p) == \A k \in 1..Len(cs) : CondHolds(cs[k], p)
RuleActive(r, p) == \E k \in 1..Len(r.conds) : CondSetHolds(r.conds[k], p)

RECURSIVE RuleSubsR(_, _, _, _)
RuleSubsR(rules, p, k, acc) ==
    IF k > Len(rules) THEN acc
    ELSE RuleSubsR(rules, p, k + 1, IF RuleActive(rules[k], p) THEN LeftMerge(acc, rules[k].subs) ELSE acc)
\* substitutions of every rule with a condition set containing p, earlier rules take precedence
RuleSubs(rules, p) == RuleSubsR(rules, p, 1, EmptyMap)

\* glyphs that two rules active at p map to different targets:  g -> set of targets
Contested(rules, p) ==
    LET act == {k \in 1..Len(rules) : RuleActive(rules[k], p)}
        T(g) == {rules[k].subs[g] : k \in {j \in act : g \in DOMAIN rules[j].subs}}
        gs == UNION {DOMAIN rules[k].subs : k \in act}
    IN TLCEval([g \in {x \in gs : Cardinality(T(x)) >= 2} |-> T(g)])

-----------------------------------------------------------------------------
(* 2a. TRANSCRIPTION: fontir/src/feature_variations.rs                        *)
(* An NBox is a function  axis -> <<min, max>>  (BTreeMap<Tag,(min,max)>).    *)
EmptyBox == TLCEval([x \in {} |-> <<0, 0>>])

\* NBox::insert for every condition (a later condition on the same axis overwrites)
BoxFromCondSet(cs) ==
    TLCEval([x \in {cs[k].ax : k \in 1..Len(cs)} |->
        LET c == cs[CHOOSE k \in 1..Len(cs) : cs[k].ax = x /\ \A j \in k + 1..Len(cs) : cs[j].ax # x]
        IN <<IF c.hasLo THEN Max(c.lo, -U) ELSE -U, IF c.hasHi THEN Min(c.hi, U) ELSE U>>])

\* NBox::cleanup
Cleanup(b) == TLCEval([x \in {y \in DOMAIN b : b[y] # <<-U, U>>} |-> b[x]])

\* derived Ord of NBox: lexicographic over (tag, (min, max)) entries; axis index order = tag order
BoxKey(b) == LET ax == SortedSeq(DOMAIN b) IN Flatten(TLCEval([k \in 1..Len(ax) |-> <<ax[k], b[ax[k]][1], b[ax[k]][2]>>]))

\* Region::cleanup_and_normalize
NormRegion(reg) ==
    LET srt == SortByKey(TLCEval([k \in 1..Len(reg) |-> [k |-> BoxKey(Cleanup(reg[k])), v |-> Cleanup(reg[k])]]))
    IN TLCEval([k \in 1..Len(srt) |-> srt[k].v])

\* the remainder loop of NBox::overlay_onto, st = [ext, full, giveup, rem]
RECURSIVE RemWalk(_, _, _, _, _, _)
RemWalk(self, other, inter, axes, k, st) ==
    IF k > Len(axes) THEN st
    ELSE LET x == axes[k] IN
         IF x \notin DOMAIN self THEN RemWalk(self, other, inter, axes, k + 1, st)
         ELSE LET min1 == inter[x][1]
                  max1 == inter[x][2]
                  min2 == other[x][1]
                  max2 == other[x][2]
              IN IF min1 <= min2 /\ max2 <= max1 THEN RemWalk(self, other, inter, axes, k + 1, st)
                 ELSE IF st.ext THEN [st EXCEPT !.giveup = TRUE]      \* second overlap: not a box
                 ELSE IF min1 <= min2                                   \* cut left side
                      THEN RemWalk(self, other, inter, axes, k + 1,
                                   [ext |-> TRUE, full |-> FALSE, giveup |-> FALSE,
                                    rem |-> [st.rem EXCEPT ![x] = <<Max(max1, min2), max2>>]])
                 ELSE IF max2 <= max1                                   \* cut right side
                      THEN RemWalk(self, other, inter, axes, k + 1,
                                   [ext |-> TRUE, full |-> FALSE, giveup |-> FALSE,
                                    rem |-> [st.rem EXCEPT ![x] = <<min2, Min(min1, max2)>>]])
                 ELSE [st EXCEPT !.giveup = TRUE]                     \* extends on both sides

\* NBox::overlay_onto: [i |-> <<>> or <<intersection>>, r |-> <<>> or <<remainder>>]
OverlayOnto(self, other) ==
    LET common == DOMAIN self \cap DOMAIN other
        all == DOMAIN self \cup DOMAIN other
        imin(x) == Max(self[x][1], other[x][1])
        imax(x) == Min(self[x][2], other[x][2])
    IN IF \E x \in common : imin(x) >= imax(x) THEN [i |-> <<>>, r |-> <<other>>]
       ELSE LET inter == TLCEval([x \in all |-> IF x \in common THEN <<imin(x), imax(x)>>
                                        ELSE IF x \in DOMAIN other THEN other[x] ELSE self[x]])
                ext0 == \E x \in DOMAIN self : x \notin DOMAIN other
                st == RemWalk(self, other, inter, SortedSeq(DOMAIN other), 1,
                              [ext |-> ext0, full |-> ~ext0, giveup |-> FALSE, rem |-> other])
            IN IF st.giveup THEN [i |-> <<inter>>, r |-> <<other>>]
               ELSE IF st.full THEN [i |-> <<inter>>, r |-> <<>>]
               ELSE [i |-> <<inter>>, r |-> <<st.rem>>]

(* Rank: SmallVec<[u64;4]>, most significant word first; a word is the set of its one bits. *)
RankNew(v) == TLCEval([k \in 1..(v \div 64 + 1) |-> IF k = 1 THEN {v % 64} ELSE {}])
\* impl BitOr for &Rank: the shorter operand is OR-ed onto the longer one, aligned at the end
RankOr(a, b) ==
    LET long == IF Len(a) > Len(b) THEN a ELSE b
        short == IF Len(a) > Len(b) THEN b ELSE a
        d == Len(long) - Len(short)
    IN TLCEval([k \in 1..Len(long) |-> IF k > d THEN long[k] \cup short[k - d] ELSE long[k]])
\* impl BitOrAssign: missing leading words are copied from rhs, then words are OR-ed pairwise FROM THE
\* FRONT (zip), which is only aligned when self is not longer than rhs
RankOrAssign(self, rhs) ==
    IF RankFixed THEN RankOr(self, rhs)
    ELSE LET missing == Max(0, Len(rhs) - Len(self))
             ext == SubSeq(rhs, 1, missing) \o self
         IN TLCEval([k \in 1..Len(ext) |-> IF k <= Len(rhs) THEN ext[k] \cup rhs[k] ELSE ext[k]])
RankZero(r) == \A k \in 1..Len(r) : r[k] = {}
RECURSIVE SumZerosR(_, _)
SumZerosR(r, k) == IF k > Len(r) THEN 0 ELSE (64 - Cardinality(r[k])) + SumZerosR(r, k + 1)
RankCountZeros(r) == SumZerosR(r, 1)
\* the key boxes are sorted by (stable, ascending)
RankSortKey(r) == IF RankFixed THEN 64 * Len(r) - SumZerosR(r, 1) ELSE RankCountZeros(r)
\* indices of the set bits, ascending (the right_shift_one loop)
RankBits(r) == SortedSeq(UNION {{64 * (Len(r) - k) + b : b \in r[k]} : k \in 1..Len(r)})

\* merge_same_sub_rules: cs is a sequence of [region, subs]
RECURSIVE MergeSameSubsR(_, _, _)
MergeSameSubsR(cs, k, acc) ==
    IF k > Len(cs) THEN acc
    ELSE LET e == cs[k]
             hit == {j \in 1..Len(acc) : acc[j].subs = e.subs}
         IN MergeSameSubsR(cs, k + 1,
                IF hit = {} THEN Append(acc, e)
                ELSE LET j == CHOOSE j \in hit : TRUE IN [acc EXCEPT ![j].region = @ \o e.region])
MergeSameSubs(cs) == MergeSameSubsR(cs, 1, <<>>)

\* merge_same_region_rules: reverse iteration, so that the earlier rule's entries overwrite
RECURSIVE MergeSameRegionR(_, _, _)
MergeSameRegionR(cs, k, acc) ==
    IF k < 1 THEN acc
    ELSE LET e == [region |-> NormRegion(cs[k].region), subs |-> cs[k].subs]
             hit == {j \in 1..Len(acc) : acc[j].region = e.region}
         IN MergeSameRegionR(cs, k - 1,
                IF hit = {} THEN Append(acc, e)
                ELSE LET j == CHOOSE j \in hit : TRUE IN [acc EXCEPT ![j].subs = Extend(@, e.subs)])
MergeSameRegion(cs) == Reverse(MergeSameRegionR(cs, Len(cs), <<>>))

\* the conditional_subs of the implementation after the two preflight merges
Merged(rules) ==
    MergeSameRegion(MergeSameSubs(TLCEval([k \in 1..Len(rules) |->
        [region |-> TLCEval([j \in 1..Len(rules[k].conds) |-> BoxFromCondSet(rules[k].conds[j])]),
         subs |-> rules[k].subs]])))

\* IndexMap<NBox, Rank> as a sequence of [box, rank]
Upsert(map, box, rank) ==
    LET hit == {j \in 1..Len(map) : map[j].box = box}
    IN IF hit = {} THEN Append(map, [box |-> box, rank |-> RankOrAssign(<<>>, rank)])
       ELSE LET j == CHOOSE j \in hit : TRUE IN [map EXCEPT ![j].rank = RankOrAssign(@, rank)]
InitMap == <<[box |-> EmptyBox, rank |-> <<>>]>>

RECURSIVE OverBoxes(_, _, _, _, _)
OverBoxes(region, c, entry, curRank, acc) ==
    IF c > Len(region) THEN acc
    ELSE LET o == OverlayOnto(region[c], entry.box)
             a1 == IF o.i # <<>> THEN Upsert(acc, o.i[1], RankOr(entry.rank, curRank)) ELSE acc
             a2 == IF o.r # <<>> THEN Upsert(a1, o.r[1], entry.rank) ELSE a1
         IN OverBoxes(region, c + 1, entry, curRank, a2)
RECURSIVE OverEntries(_, _, _, _, _)
OverEntries(region, old, e, curRank, acc) ==
    IF e > Len(old) THEN acc
    ELSE OverEntries(region, old, e + 1, curRank, OverBoxes(region, 1, old[e], curRank, acc))
RECURSIVE OverRules(_, _, _)
OverRules(ms, i, boxmap) ==
    IF i > Len(ms) THEN boxmap
    ELSE OverRules(ms, i + 1, OverEntries(ms[i].region, boxmap, 1, RankNew(i - 1), InitMap))

\* overlay_feature_variations on already merged rules:
\*   [items |-> sequence of [box, subs (list of maps)], panic |-> a rank has a bit beyond the rule list
\*    (conditional_subs[i] would be indexed out of range)]
OverlayMerged(ms) ==
    LET boxmap == OverRules(ms, 1, InitMap)
        srt == SortByKey(TLCEval([k \in 1..Len(boxmap) |-> [k |-> <<IF RankFixed THEN 0 - RankSortKey(boxmap[k].rank) ELSE RankSortKey(boxmap[k].rank)>>, v |-> boxmap[k]]]))
        keep == SelectSeq(srt, LAMBDA e : ~RankZero(e.v.rank))
        bitsOf(k) == RankBits(keep[k].v.rank)
    IN [items |-> TLCEval([k \in 1..Len(keep) |->
                     LET bits == SelectSeq(bitsOf(k), LAMBDA b : b < Len(ms))
                     IN [box |-> keep[k].v.box, subs |-> TLCEval([j \in 1..Len(bits) |-> ms[bits[j] + 1].subs])]]),
        panic |-> \E k \in 1..Len(keep) : \E j \in 1..Len(bitsOf(k)) : bitsOf(k)[j] >= Len(ms)]

-----------------------------------------------------------------------------
(* 2b. TRANSCRIPTION: back end + fea-rs + OpenType evaluation                  *)
RECURSIVE DistinctMapsR(_, _, _)
DistinctMapsR(items, k, acc) ==
    IF k > Len(items) THEN acc
    ELSE DistinctMapsR(items, k + 1, acc \cup {items[k].subs[j] : j \in 1..Len(items[k].subs)})
\* make_substitution_lookups: sort + dedup of all maps; lookup index = position - 1
RECURSIVE SetToSeqAny(_)
SetToSeqAny(S) == IF S = {} THEN <<>> ELSE LET x == CHOOSE x \in S : TRUE IN <<x>> \o SetToSeqAny(S \ {x})
Lookups(items) ==
    LET seq == SetToSeqAny(DistinctMapsR(items, 1, {}))
        srt == SortByKey(TLCEval([k \in 1..Len(seq) |-> [k |-> MapKey(seq[k]), v |-> seq[k]]]))
    IN TLCEval([k \in 1..Len(srt) |-> srt[k].v])

\* NBox::to_condition_set: <<axis index (0-based), min, max>>, full-range axes are dropped
CondsOf(box) ==
    LET ax == SortedSeq({x \in DOMAIN box : box[x] # <<-U, U>>})
    IN TLCEval([k \in 1..Len(ax) |-> <<ax[k] - 1, box[ax[k]][1], box[ax[k]][2]>>])

RECURSIVE RecordsR(_, _, _, _)
RecordsR(items, lks, k, acc) ==
    IF k > Len(items) THEN acc
    ELSE LET conds == CondsOf(items[k].box)
             idx == SortedSeq({(CHOOSE n \in 1..Len(lks) : lks[n] = items[k].subs[j]) - 1 : j \in 1..Len(items[k].subs)})
             hit == {j \in 1..Len(acc) : acc[j].conds = conds}
         IN RecordsR(items, lks, k + 1,
                \* HashMap<ConditionSet, Vec<LookupId>>: a later identical condition set overwrites the
                \* lookups, the record keeps the position of the first registration
                IF hit = {} THEN Append(acc, [conds |-> conds, lookups |-> idx])
                ELSE LET j == CHOOSE j \in hit : TRUE IN [acc EXCEPT ![j].lookups = idx])
\* the font: [lookups |-> sequence of maps, records |-> sequence of [conds, lookups]]
Font(items) == LET lks == Lookups(items) IN [lookups |-> lks, records |-> RecordsR(items, lks, 1, <<>>)]

RecordMatches(rec, p) == \A k \in 1..Len(rec.conds) :
                            LET c == rec.conds[k] IN c[2] <= p[c[1] + 1] /\ p[c[1] + 1] <= c[3]
RECURSIVE ApplyLookups(_, _, _, _)
ApplyLookups(font, idx, k, g) ==
    IF k > Len(idx) THEN g
    ELSE LET m == font.lookups[idx[k] + 1]
         IN ApplyLookups(font, idx, k + 1, IF g \in DOMAIN m THEN m[g] ELSE g)
\* first matching record wins; its lookups are applied in lookup-list order to every source glyph
FontSubs(font, srcs, p) ==
    LET hit == {k \in 1..Len(font.records) : RecordMatches(font.records[k], p)}
    IN IF hit = {} THEN EmptyMap
       ELSE LET k == CHOOSE k \in hit : \A j \in hit : k <= j
                res == TLCEval([g \in srcs |-> ApplyLookups(font, font.records[k].lookups, 1, g)])
            IN TLCEval([g \in {x \in srcs : res[x] # x} |-> res[g]])

\* internal: the API result read as "first box containing p, maps merged in list order"
BoxContains(box, p) == \A x \in DOMAIN box : box[x][1] <= p[x] /\ p[x] <= box[x][2]
RECURSIVE LeftMergeAll(_, _, _)
LeftMergeAll(ms, k, acc) == IF k > Len(ms) THEN acc ELSE LeftMergeAll(ms, k + 1, LeftMerge(acc, ms[k]))
ListSubs(items, p) ==
    LET hit == {k \in 1..Len(items) : BoxContains(items[k].box, p)}
    IN IF hit = {} THEN EmptyMap
       ELSE LeftMergeAll(items[CHOOSE k \in hit : \A j \in hit : k <= j].subs, 1, EmptyMap)

-----------------------------------------------------------------------------
(* 3. SAMPLE POINTS AND THE PER-CASE REPORT                                  *)
(* per axis: the midpoints of the four grid cells, and every breakpoint      *)
(* b-1, b, b+1 (one F2Dot14 quantum outside / on / inside) within [-1, 1]    *)
Coords == SortedSeq({-12288, -4096, 4096, 12288}
                    \cup {v \in UNION {{BP[k] - 1, BP[k], BP[k] + 1} : k \in 1..Len(BP)} : -U <= v /\ v <= U})
NC == Len(Coords)

\* the bounds a case uses on axis x (implied bounds of open-ended / absent conditions included)
BoundsOn(rules, x) ==
    {-U, U} \cup UNION {UNION {UNION {IF rules[r].conds[s][c].ax = x
                                      THEN {IF rules[r].conds[s][c].hasLo THEN rules[r].conds[s][c].lo ELSE -U,
                                            IF rules[r].conds[s][c].hasHi THEN rules[r].conds[s][c].hi ELSE U}
                                      ELSE {} : c \in 1..Len(rules[r].conds[s])}
                               : s \in 1..Len(rules[r].conds)} : r \in 1..Len(rules)}

(* Every operator above depends on a coordinate only through comparisons     *)
(* with the bounds of the case, so all coordinates with the same position    *)
(* relative to the bounds form one cell class and are evaluated once.        *)
CellClass(B, v) == 2 * Cardinality({b \in B : b < v}) + (IF v \in B THEN 1 ELSE 0)

SrcGlyphs(rules) == UNION {DOMAIN rules[k].subs : k \in 1..Len(rules)}

\* rules of the merged list (0-based index >= 64) in whose region p lies: their rank needs a second word
HighActive(ms, p) == \E k \in 65..Len(ms) : \E j \in 1..Len(ms[k].region) : BoxContains(ms[k].region[j], p)

SetAsSeq(S) == GlyphsSorted(S)
PointReport(rules, srcs, ms, items, font, B, p) ==
    LET con == Contested(rules, p)
    IN [e |-> RuleSubs(rules, p),
        f |-> FontSubs(font, srcs, p),
        l |-> ListSubs(items, p),
        c |-> TLCEval([g \in DOMAIN con |-> SetAsSeq(con[g])]),
        h |-> HighActive(ms, p),
        \* exact-edge point: a coordinate lies on a bound strictly inside the axis range
        x |-> \E a \in 1..Len(p) : p[a] \in B[a] \ {-U, U}]

MapDiff(m1, m2) == {g \in DOMAIN m1 \cup DOMAIN m2 :
                      ~(g \in DOMAIN m1 /\ g \in DOMAIN m2 /\ m1[g] = m2[g]) /\ ~(g \notin DOMAIN m1 /\ g \notin DOMAIN m2)}
\* the known classes of disagreement, as predicates on (input, point, result):
\*  KF1  every wrong glyph is contested at p and gets one of the contested targets
\*  KF2  more than 64 merged rules and p lies in the region of one with index >= 64 (or, with more than
\*       64 merged rules, a rank gets a bit beyond the rule list: the implementation panics)
KF1(rep, got) == \A g \in MapDiff(rep.e, got) : g \in DOMAIN rep.c /\ g \in DOMAIN got
                                               /\ \E k \in 1..Len(rep.c[g]) : rep.c[g][k] = got[g]
KF2(rep) == ~RankFixed /\ rep.h

RECURSIVE ClassifyR(_, _, _, _)
\* reps: sequence of point reports -> [classes |-> distinct reports, cls |-> index per report]
ClassifyR(reps, k, classes, cls) ==
    IF k > Len(reps) THEN [classes |-> classes, cls |-> cls]
    ELSE LET hit == {j \in 1..Len(classes) : classes[j] = reps[k]}
         IN IF hit = {} THEN ClassifyR(reps, k + 1, Append(classes, reps[k]), Append(cls, Len(classes) + 1))
            ELSE ClassifyR(reps, k + 1, classes, Append(cls, CHOOSE j \in hit : TRUE))

ItemsJson(items) == TLCEval([k \in 1..Len(items) |->
                       [box |-> LET ax == SortedSeq(DOMAIN items[k].box)
                                IN TLCEval([j \in 1..Len(ax) |-> <<ax[j], items[k].box[ax[j]][1], items[k].box[ax[j]][2]>>]),
                        subs |-> items[k].subs]])

\* case = [id, fam, nax, rules]; items = the boxes to interpret (transcription or observed)
Report(case, items, panic) ==
    LET rules == case.rules
        nax == case.nax
        ms == Merged(rules)
        font == Font(items)
        srcs == SrcGlyphs(rules)
        B == TLCEval([a \in 1..nax |-> BoundsOn(rules, a)])
        \* per axis: class id of every coordinate, the distinct ids, a representative coordinate per id
        cid == TLCEval([a \in 1..nax |-> TLCEval([i \in 1..NC |-> CellClass(B[a], Coords[i])])])
        ids == TLCEval([a \in 1..nax |-> SortedSeq({cid[a][i] : i \in 1..NC})])
        rep == TLCEval([a \in 1..nax |-> TLCEval([j \in 1..Len(ids[a]) |->
                    Coords[CHOOSE i \in 1..NC : cid[a][i] = ids[a][j] /\ \A i2 \in 1..NC : cid[a][i2] = ids[a][j] => i <= i2]])])
        pos == TLCEval([a \in 1..nax |-> TLCEval([i \in 1..NC |-> CHOOSE j \in 1..Len(ids[a]) : ids[a][j] = cid[a][i]])])
        n1 == Len(ids[1])
        n2 == IF nax = 2 THEN Len(ids[2]) ELSE 1
        cellPoint(c) == IF nax = 1 THEN <<rep[1][c]>>
                        ELSE <<rep[1][(c - 1) \div n2 + 1], rep[2][Mod1(c - 1, n2)]>>
        cl == ClassifyR(TLCEval([c \in 1..n1 * n2 |-> PointReport(rules, srcs, ms, items, font, B, cellPoint(c))]), 1, <<>>, <<>>)
        \* points in row-major order of Coords: index (i-1)*NC + j for <<Coords[i], Coords[j]>>
        ptCls == IF nax = 1 THEN TLCEval([i \in 1..NC |-> cl.cls[pos[1][i]]])
                 ELSE TLCEval([q \in 1..NC * NC |-> cl.cls[(pos[1][(q - 1) \div NC + 1] - 1) * n2 + pos[2][Mod1(q - 1, NC)]]])
    IN [id |-> case.id, fam |-> case.fam, nax |-> nax, rules |-> rules, coords |-> Coords,
        classes |-> cl.classes, cls |-> ptCls, ncells |-> n1 * n2,
        nmerged |-> Len(ms), panic |-> panic, items |-> ItemsJson(items), records |-> font.records,
        lookups |-> font.lookups]

\* design-level statement on the spec: away from exact edges the modelled font does what the rules
\* say, except in the two characterised classes
DesignOK(rp) == \A k \in 1..Len(rp.classes) :
                   LET c == rp.classes[k] IN c.x \/ c.e = c.f \/ KF1(c, c.f) \/ KF2(c)

-----------------------------------------------------------------------------
(* 4. CASE GENERATORS                                                        *)
\* the seed is read once (Init) into the state variable sd: TLC re-evaluates this CHOOSE on every use
EnvSeed == IF "FV_SEED" \in DOMAIN IOEnv THEN CHOOSE n \in 0..9999 : ToString(n) = IOEnv.FV_SEED ELSE 1

\* the 18 ranges on one axis: 10 closed ones over the grid, 4 without minimum, 4 without maximum
ClosedInts == LET prs == SortByKey(Flatten(TLCEval([i \in 1..4 |-> TLCEval([d \in 1..(5 - i) |-> [k |-> <<i, i + d>>, v |-> <<i, i + d>>]])])))
              IN TLCEval([k \in 1..Len(prs) |-> [lo |-> BP[prs[k].v[1]], hi |-> BP[prs[k].v[2]], hasLo |-> TRUE, hasHi |-> TRUE]])
OpenInts == TLCEval([k \in 1..4 |-> [lo |-> -U, hi |-> BP[k + 1], hasLo |-> FALSE, hasHi |-> TRUE]])
            \o TLCEval([k \in 1..4 |-> [lo |-> BP[k], hi |-> U, hasLo |-> TRUE, hasHi |-> FALSE]])
Ints == ClosedInts \o OpenInts
Cond(x, iv) == [ax |-> x, lo |-> iv.lo, hi |-> iv.hi, hasLo |-> iv.hasLo, hasHi |-> iv.hasHi]

\* the 5 substitution maps over {a->a1, a->a2, b->b1}
Maps == <<MkMap({<<"a", "a1">>}), MkMap({<<"a", "a2">>}), MkMap({<<"b", "b1">>}),
          MkMap({<<"a", "a1">>, <<"b", "b1">>}), MkMap({<<"a", "a2">>, <<"b", "b1">>})>>

\* unordered pairs (with repetition) of closed ranges: 55
IntPairs == Flatten(TLCEval([i \in 1..10 |-> TLCEval([j \in 1..(11 - i) |-> <<i, i + j - 1>>])]))

Pow(b, e) == IF e = 0 THEN 1 ELSE IF e = 1 THEN b ELSE IF e = 2 THEN b * b ELSE b * b * b
\* j-th (0-based) list of length len over 1..base, first element most significant
ListAt(base, len, j) == TLCEval([k \in 1..len |-> Mod1(j \div Pow(base, len - k), base)])
\* i in 1..(base + base^2 + .. + base^maxlen)  ->  list of length 1..maxlen
RECURSIVE ListsUpToR(_, _, _)
ListsUpToR(base, i, len) == IF i <= Pow(base, len) THEN ListAt(base, len, i - 1)
                            ELSE ListsUpToR(base, i - Pow(base, len), len + 1)
ListsUpTo(base, i) == ListsUpToR(base, i, 1)

\* E1: 1 axis, 1-2 rules, one condition set, all 18 ranges x 5 maps            90 + 90^2 = 8190
E1Rule(code) == [conds |-> <<<<Cond(1, Ints[(code - 1) \div 5 + 1])>>>>, subs |-> Maps[Mod1(code - 1, 5)]]
E1Case(i) == LET l == ListsUpTo(90, i) IN TLCEval([k \in 1..Len(l) |-> E1Rule(l[k])])
\* E2: 1 axis, exactly 3 rules, one condition set, 10 closed ranges x 3 single-glyph maps   30^3 = 27000
E2Rule(code) == [conds |-> <<<<Cond(1, ClosedInts[(code - 1) \div 3 + 1])>>>>, subs |-> Maps[Mod1(code - 1, 3)]]
E2Case(i) == LET l == ListAt(30, 3, i - 1) IN TLCEval([k \in 1..3 |-> E2Rule(l[k])])
\* E3: 1 axis, 1-2 rules, exactly two condition sets (55 pairs of closed ranges) x 3 maps   165 + 165^2 = 27390
E3Rule(code) == LET pr == IntPairs[(code - 1) \div 3 + 1]
                IN [conds |-> <<<<Cond(1, ClosedInts[pr[1]])>>, <<Cond(1, ClosedInts[pr[2]])>>>>,
                    subs |-> Maps[Mod1(code - 1, 3)]]
E3Case(i) == LET l == ListsUpTo(165, i) IN TLCEval([k \in 1..Len(l) |-> E3Rule(l[k])])
\* E4: 2 axes, 1-2 rules, one condition set over the coarse grid {-1,0,1}: a range on axis 1, on axis 2,
\*     or on both (3 + 3 + 9 = 15 boxes) x 5 maps                                75 + 75^2 = 5700
CoarseInts == <<ClosedInts[2], ClosedInts[4], ClosedInts[9]>>     \* [-1,0] [-1,1] [0,1]
E4Box(b) == IF b <= 3 THEN <<Cond(1, CoarseInts[b])>>
            ELSE IF b <= 6 THEN <<Cond(2, CoarseInts[b - 3])>>
            ELSE <<Cond(1, CoarseInts[(b - 7) \div 3 + 1]), Cond(2, CoarseInts[Mod1(b - 7, 3)])>>
E4Rule(code) == [conds |-> <<E4Box((code - 1) \div 5 + 1)>>, subs |-> Maps[Mod1(code - 1, 5)]]
E4Case(i) == LET l == ListsUpTo(75, i) IN TLCEval([k \in 1..Len(l) |-> E4Rule(l[k])])
\* E5: 2 axes, exactly 3 rules, coarse boxes (15) x 3 single-glyph maps              45^3 = 91125
E5Rule(code) == [conds |-> <<E4Box((code - 1) \div 3 + 1)>>, subs |-> Maps[Mod1(code - 1, 3)]]
E5Case(i) == LET l == ListAt(45, 3, i - 1) IN TLCEval([k \in 1..3 |-> E5Rule(l[k])])

(* pseudo-random families: Lehmer generator (Schrage's method, no 32-bit overflow), seeded by *)
(* (FV_SEED, family salt, case number): reproducible and independent of TLC's own randomness  *)
Nxt(x) == LET t == 16807 * (x % 127773) - 2836 * (x \div 127773) IN IF t > 0 THEN t ELSE t + 2147483647
RECURSIVE DrawsR(_, _, _)
DrawsR(x, n, acc) == IF n = 0 THEN acc ELSE LET y == Nxt(x) IN DrawsR(y, n - 1, Append(acc, y \div 7))
Draws(seed, salt, i, n) == DrawsR(Nxt(Nxt(1 + ((seed % 1000) * 2000000) + salt * 200000 + i)), n, <<>>)

\* a random condition set on nax axes from draws d[o+1..o+3]
RndCondSet(nax, d, o) ==
    IF nax = 1 THEN <<Cond(1, Ints[Mod1(d[o + 2], 18)])>>
    ELSE LET kind == d[o + 1] % 4
         IN IF kind = 0 THEN <<Cond(1, Ints[Mod1(d[o + 2], 18)])>>
            ELSE IF kind = 1 THEN <<Cond(2, Ints[Mod1(d[o + 3], 18)])>>
            ELSE <<Cond(1, Ints[Mod1(d[o + 2], 18)]), Cond(2, Ints[Mod1(d[o + 3], 18)])>>
\* a random rule from draws d[o+1..o+8]
RndRule(nax, d, o) ==
    [conds |-> IF (d[o + 1] % 2) = 0 THEN <<RndCondSet(nax, d, o + 2)>>
               ELSE <<RndCondSet(nax, d, o + 2), RndCondSet(nax, d, o + 5)>>,
     subs |-> Maps[Mod1(d[o + 2], 5)]]
\* R1 / R2: 1 / 2 axes, 1-3 rules (weights 1:2:5), 1-2 condition sets, all 18 ranges per axis, 5 maps
RndCase(seed, nax, i) ==
    LET d == Draws(seed, nax, i, 25)
        w == d[1] % 8
        nr == IF w = 0 THEN 1 ELSE IF w <= 2 THEN 2 ELSE 3
    IN TLCEval([k \in 1..nr |-> RndRule(nax, d, 1 + 8 * (k - 1))])

\* M: nf disjoint filler rules (each its own glyph pair and its own sliver of axis 1 below -1/2 ... the
\*    slivers [-16300+20k, -16300+20k+10] never touch a sample coordinate) between/after random rules, so
\*    that the merged rule list has 63..67 entries
Filler(k) == [conds |-> <<<<[ax |-> 1, lo |-> -16300 + 20 * k, hi |-> -16290 + 20 * k, hasLo |-> TRUE, hasHi |-> TRUE]>>>>,
              subs |-> MkMap({<<GlyphSeq[5 + k], GlyphSeq[5 + NFill + k]>>})]
ManyCase(seed, i) ==
    LET d == Draws(seed, 3, i, 45)
        nax == Mod1(d[1], 2)
        nf == 62 + (d[2] % 4)
        pre == Mod1(d[3], 2)              \* random rules before the fillers
        post == Mod1(d[4], 3)             \* random rules after the fillers
    IN [nax |-> nax,
        rules |-> TLCEval([k \in 1..pre |-> RndRule(nax, d, 4 + 8 * (k - 1))])
                  \o TLCEval([k \in 1..nf |-> Filler(k)])
                  \o TLCEval([k \in 1..post |-> RndRule(nax, d, 20 + 8 * (k - 1))])]
\* the hand-made member of M: rule 65 strictly nested inside rule 1
ManyFixed(nf) == [nax |-> 1,
                  rules |-> <<[conds |-> <<<<Cond(1, ClosedInts[9])>>>>, subs |-> Maps[1]]>>     \* [0,1] a->a1
                            \o TLCEval([k \in 1..nf |-> Filler(k)])
                            \o <<[conds |-> <<<<[ax |-> 1, lo |-> 4096, hi |-> 8192, hasLo |-> TRUE, hasHi |-> TRUE]>>>>,
                                  subs |-> Maps[3]]>>]                                           \* [1/4,1/2] b->b1

CaseOf(seed, fam, i) ==
    LET mk(nax, rules) == [id |-> fam \o "-" \o ToString(i), fam |-> fam, nax |-> nax, rules |-> rules]
    IN CASE fam = "E1" -> mk(1, E1Case(i))
         [] fam = "E2" -> mk(1, E2Case(i))
         [] fam = "E3" -> mk(1, E3Case(i))
         [] fam = "E4" -> mk(2, E4Case(i))
         [] fam = "E5" -> mk(2, E5Case(i))
         [] fam = "R1" -> mk(1, RndCase(seed, 1, i))
         [] fam = "R2" -> mk(2, RndCase(seed, 2, i))
         [] fam = "M" -> IF i <= 3 THEN mk(1, ManyFixed(61 + i).rules)
                         ELSE LET c == ManyCase(seed, i) IN mk(c.nax, c.rules)

FamSize(fam) == CASE fam = "E1" -> 8190 [] fam = "E2" -> 27000 [] fam = "E3" -> 27390
                  [] fam = "E4" -> 5700 [] fam = "E5" -> 91125 [] OTHER -> 1000000

-----------------------------------------------------------------------------
(* State machine: level 0 = root, level 1 = one state per block of cases (so that the blocks are *)
(* spread over the TLC workers), level 2 = one state per case; the report is printed by the      *)
(* invariant Emit when the case state is checked.                                               *)
VARIABLES lvl, fam, idx, sd
vars == <<lvl, fam, idx, sd>>
BlockSize == 50

FamIdx == 1..Len(Families)
\* a family with n < its full size is a sub-sample: stride through the index space (exhaustive
\* families) or the first n case numbers (random families)
CaseNumber(seed, f, k) == LET full == FamSize(Families[f].name)
                        n == Families[f].n
                    IN IF n >= full \/ full = 1000000 THEN k
                       ELSE Mod1((k - 1) * (full \div n) + ((seed * 7919) % (full \div n)), full)
FamCount(f) == Min(Families[f].n, FamSize(Families[f].name))

Init == lvl = 0 /\ fam = 0 /\ idx = 0 /\ sd = EnvSeed
Next == \/ /\ lvl = 0
           /\ UNCHANGED sd
           /\ lvl' = 1
           /\ \E f \in FamIdx : \E b \in 0..((FamCount(f) - 1) \div BlockSize) : fam' = f /\ idx' = b
        \/ /\ lvl = 1
           /\ UNCHANGED sd
           /\ lvl' = 2
           /\ fam' = fam
           /\ \E k \in (idx * BlockSize + 1)..Min((idx + 1) * BlockSize, FamCount(fam)) : idx' = k

CurCase == CaseOf(sd, Families[fam].name, CaseNumber(sd, fam, idx))
CurReport == LET c == CurCase
                 ov == OverlayMerged(Merged(c.rules))
             IN Report(c, ov.items, ov.panic)

\* One invariant does both jobs (the report is computed once): it prints the REPLAY line of the case and
\* states the design-level property.  TLC runs with -continue: a failure is reported with its state
\* (fam, idx) and is a DESIGN-level finding outside the characterised classes; the run goes on.
EmitAndDesign == lvl = 2 => LET rp == CurReport
                                ok == DesignOK(rp) /\ (rp.panic => (~RankFixed /\ rp.nmerged > 64))
                            IN PrintT(<<"REPLAY", ToJson(rp @@ [design |-> ok])>>) /\ ok

-----------------------------------------------------------------------------
(* Observation mode: FV_OBS is an ndjson file of [id, fam, nax, rules, items] where items are the *)
(* boxes + substitution lists returned by the real overlay_feature_variations.                    *)
ObsRecs == IF "FV_OBS" \in DOMAIN IOEnv THEN ndJsonDeserialize(IOEnv.FV_OBS) ELSE <<>>
ObsItems(o) == TLCEval([k \in 1..Len(o.items) |->
                  [box |-> TLCEval([x \in {o.items[k].box[j][1] : j \in 1..Len(o.items[k].box)} |->
                              LET e == o.items[k].box[CHOOSE j \in 1..Len(o.items[k].box) : o.items[k].box[j][1] = x]
                              IN <<e[2], e[3]>>]),
                   subs |-> TLCEval([j \in 1..Len(o.items[k].subs) |->
                               TLCEval([g \in DOMAIN o.items[k].subs[j] |-> o.items[k].subs[j][g]])])]])
ObsRules(o) == TLCEval([r \in 1..Len(o.rules) |->
                  [conds |-> o.rules[r].conds, subs |-> TLCEval([g \in DOMAIN o.rules[r].subs |-> o.rules[r].subs[g]])]])
ObsInit == lvl = 0 /\ fam = 0 /\ idx = 0 /\ sd = 0
ObsNext == \/ /\ lvl = 0
              /\ UNCHANGED sd
              /\ lvl' = 1
              /\ fam' = 0
              /\ \E b \in 0..((Len(ObsRecs) - 1) \div BlockSize) : idx' = b
           \/ /\ lvl = 1
              /\ UNCHANGED sd
              /\ lvl' = 2
              /\ fam' = 0
              /\ \E k \in (idx * BlockSize + 1)..Min((idx + 1) * BlockSize, Len(ObsRecs)) : idx' = k
ObsEmit == lvl = 2 => LET o == ObsRecs[idx]
                          rp == Report([id |-> o.id, fam |-> o.fam, nax |-> o.nax, rules |-> ObsRules(o)], ObsItems(o), FALSE)
                      IN PrintT(<<"REPLAY", ToJson([id |-> rp.id, classes |-> rp.classes, cls |-> rp.cls,
                                                    records |-> rp.records, lookups |-> rp.lookups])>>)

\* family lists used by the .cfg files
QuickFamilies == <<[name |-> "E1", n |-> 1500], [name |-> "E2", n |-> 600], [name |-> "E3", n |-> 600],
                   [name |-> "E4", n |-> 450], [name |-> "E5", n |-> 250],
                   [name |-> "R1", n |-> 800], [name |-> "R2", n |-> 300], [name |-> "M", n |-> 5]>>
ThoroughFamilies == <<[name |-> "E1", n |-> 8190], [name |-> "E2", n |-> 27000], [name |-> "E3", n |-> 8000],
                      [name |-> "E4", n |-> 5700], [name |-> "E5", n |-> 3000],
                      [name |-> "R1", n |-> 8000], [name |-> "R2", n |-> 3000], [name |-> "M", n |-> 20]>>
=============================================================================
