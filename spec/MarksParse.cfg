\* C10: the anchor-name parse table (AnchorKind::new) for the 35 names of NameChars, one REPLAY line.
INIT Init
NEXT Next
CONSTANTS
    Profile = "parse"
INVARIANTS
    EmitParse
CHECK_DEADLOCK FALSE
