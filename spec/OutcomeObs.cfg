\* Validation of observed process outcomes (env OBS = ndjson of runs). -workers 1.
\* Success = "Invariant NotAccepted is violated" with Allowed / CyclicRejected holding in every state.
SPECIFICATION Spec
INVARIANTS Allowed CyclicRejected NotAccepted
CONSTRAINT Progress
POSTCONDITION ReportProgress
CHECK_DEADLOCK FALSE
