\* Workload.tla over a job graph given by env GRAPH, for `tlc -simulate` on real-size graphs.
\* Hangs are caught by the NoHang invariant, so terminal states may simply end a trace.
SPECIFICATION Spec
INVARIANTS
  TypeOK NoSchedulerPanic NoUnable OrderOK ReadsFromCanonical StagesDisjoint AlsoNeverRuns
  SuccessImpliesRan DoneMeansAll ErrorReported NoHang CountersExactUnlessAbort
CHECK_DEADLOCK FALSE
