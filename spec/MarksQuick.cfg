\* C10 quick exhaustive generator + design-level check.
\* Profile "quick": modes {plain, given, givenprop, inferprop} x anchor sets per glyph
\*   a 3, e 2, f_i 2, acutecomb 3, dotbelowcomb 2, aacute 2 (see Fam in Marks.tla) x 2 category variants in the
\*   modes with categories; masters (1-2), default master and the .5 pattern derived from the anchors (Hash).
INIT Init
NEXT Next
CONSTANTS
    Profile = "quick"
INVARIANTS
    Property
    PairsCovered
    MarksAreGdefMarks
    NoSurprise
    Emit
CHECK_DEADLOCK FALSE
