\* C09 seeded sample (tlc -simulate, one finished source per trace, depth >= 60): 2..3 masters on one axis (default
\* first or in the middle), glyphs a b c d, per master and side every assignment of the glyphs to {ungrouped, A, B} (side 1 also A_1, a name fontc may synthesize)
\* (a later master copies the previous master's groups of a side with probability 1/2: SameBias), 0..3 kerning
\* entries per master from all four pair kinds, values -40, 0, 25 (Den = 2: half units).
SPECIFICATION Spec
CONSTANTS
    Source = "gen"
    NGlyphs = 4
    Names1 = {"A", "A_1", "B"}
    Names2 = {"A", "B"}
    NMasters = {2, 3}
    DefaultAt = {"first", "middle"}
    MaxEntries = 3
    MaxTotal = 9
    PosVals = {0, 50}
    NegVals = {80}
    Den = 2
    SameBias = TRUE
INVARIANTS
    Emit
CHECK_DEADLOCK FALSE
