\* C08 thorough, second generator: exactly five mapping points (two or more segments on both sides of an
\* inner default).
\* Mapped axes: user nodes = every subset of UVals/Den with 5 elements (0, .5, 1.5, 2, 3, 4),
\* design values = every non-decreasing assignment from DVals/Den (0, 1, 1.5, 2.5, 3, 4), default at every
\* node, restricted to Valid(case); dense user grid = every multiple of 1/4 in [min, max].
SPECIFICATION Spec
CONSTANTS
    Source = "enum"
    UVals = {0, 1, 3, 4, 6, 8}
    DVals = {0, 2, 3, 5, 6, 8}
    Den = 2
    GridMul = 2
    NMin = 5
    NMax = 5
INVARIANTS
    ValidAccepted
    FvarIsUserBounds
    AvarRequiredMaps
    AvarNonDecreasing
    NormalizationAnchors
    TwoRoutesExact
    TwoRoutesQuantised
    InstancesInRange
    NormDesignRoundTrip
    OrderIndependent
    Emit
CHECK_DEADLOCK FALSE
