\* Workload.tla over a job graph given by env GRAPH: breadth-first, complete, for small graphs.
\* SpecD adds stuttering in quiescent terminal states so that TLC's deadlock check reports hangs only.
SPECIFICATION SpecD
INVARIANTS
  TypeOK NoSchedulerPanic NoUnable OrderOK ReadsFromCanonical StagesDisjoint AlsoNeverRuns
  SuccessImpliesRan DoneMeansAll ErrorReported NoHang CountersExactUnlessAbort
CHECK_DEADLOCK TRUE
