\* C09 exhaustive, one master: glyphs a b c, one group per side with every membership, <= 2 kerning entries from all
\* four pair kinds, values -40, 0, 25 (64 507 sources).
SPECIFICATION Spec
CONSTANTS
    Source = "gen"
    NGlyphs = 3
    Names1 = {"A"}
    Names2 = {"A"}
    NMasters = {1}
    DefaultAt = {"first"}
    MaxEntries = 2
    MaxTotal = 2
    PosVals = {0, 50}
    NegVals = {80}
    Den = 2
    SameBias = FALSE
INVARIANTS
    Emit
CHECK_DEADLOCK FALSE
