---------------------------- MODULE FeaParseTrace ----------------------------
(***************************************************************************)
(* Trace validation for C13: every parse tree returned by the real         *)
(* fea_rs::parse::parse_root is projected by `vh feaparse` into the event  *)
(* sequence the sink must have seen (pre-order walk: Start / Token /       *)
(* Finish) plus its diagnostics, one ndjson record per input:              *)
(*   {i, tag, len, err, ev: [{e:"S",k,n,x} | {e:"T",k,n,at,h,s} | {e:"F"}],*)
(*    dg: [{lo,hi,fl,lb,hb,lv}]}                                           *)
(* len = byte length of the input; for a token n = byte length of its      *)
(* text, at = sum of the lengths of the tokens before it, h = hash of its   *)
(* text, s = hash of input[at..at+n] (-1 if that is not a slice of the     *)
(* input); for a diagnostic fl = byte length of the source it points into, *)
(* lb/hb = whether lo/hi are char boundaries of that source.               *)
(*                                                                         *)
(* Each event must be a step of FeaParse.tla.  Many inputs are validated   *)
(* in one TLC run, so a record that is not a behaviour of the spec does    *)
(* not stop the run: the name of the first guard that failed is recorded   *)
(* (`rej`), the rest of its events are skipped, its diagnostics are still  *)
(* checked one by one, and a VERDICT line is printed when the record is    *)
(* left.  Reasons starting with "I:" concern internal observables (node    *)
(* kinds and the nodes' cached lengths), not the property.                 *)
(* Acceptance of the batch = TLC completes and POSTCONDITION Accepted holds *)
(* (all records consumed).  Run with -workers 1, depth-first state queue.  *)
(***************************************************************************)
EXTENDS FeaParse, Json, IOUtils

Rec == ndJsonDeserialize(IOEnv.TRACE)
N == Len(Rec)

VARIABLES
  i,      \* current record
  k,      \* current event / diagnostic of the record
  st,     \* "begin" | "ev" | "dg"
  nlen,   \* declared text_len of the open nodes (internal observable)
  rej     \* sequence of <<reason, index>> for the current record

tvars == <<pvars, i, k, st, nlen, rej>>

R == Rec[i]
E == R.ev[k]
D == R.dg[k]

Reject(reason) == rej' = Append(rej, <<reason, k>>)

TBegin ==
  /\ i <= N /\ st = "begin"
  /\ Reset(R.len)
  /\ k' = 1 /\ st' = "ev" /\ nlen' = <<>> /\ rej' = <<>>
  /\ UNCHANGED i

\* the protocol guards of an event, in the order the sink would hit them; "" = all hold
Why ==
  CASE E.e = "S" -> IF ~OneRoot THEN "OneRoot" ELSE ""
    [] E.e = "T" -> IF ~TokenInNode THEN "TokenInNode"
                    ELSE IF ~TokenInside(E.n) THEN "TokenInside"
                    ELSE IF ~(E.s # -1 /\ E.h = E.s) THEN "TokenText"
                    ELSE ""
    [] E.e = "F" -> IF ~FinishBalanced THEN "FinishBalanced" ELSE ""
    [] OTHER -> "UnknownEvent"

\* internal observables
Internal ==
  CASE E.e = "S" -> IF stack = <<>> /\ E.k # "FILE" THEN "I:RootKind"
                    ELSE IF ~R.err /\ E.k \in {"GsubNodeNeedsRewrite", "GposNodeNeedsRewrite"} THEN "I:NeedsRewriteLeft"
                    ELSE ""
    [] E.e = "T" -> IF E.at # pos THEN "I:TokenAt" ELSE ""
    [] E.e = "F" -> IF pos - stack[Len(stack)][2] # nlen[Len(nlen)] THEN "I:NodeLen" ELSE ""
    [] OTHER -> ""

TEvent ==
  /\ i <= N /\ st = "ev" /\ k <= Len(R.ev)
  /\ IF Why = ""
     THEN /\ CASE E.e = "S" -> Start(E.k) /\ nlen' = Append(nlen, E.n)
               [] E.e = "T" -> Token(E.k, E.n, TRUE) /\ UNCHANGED nlen
               [] E.e = "F" -> Finish /\ nlen' = SubSeq(nlen, 1, Len(nlen) - 1)
          /\ IF Internal = "" THEN UNCHANGED rej ELSE Reject(Internal)
          /\ k' = k + 1 /\ UNCHANGED st
     ELSE \* not a step of the spec: record why, skip to the diagnostics
          /\ Reject(Why)
          /\ k' = 1 /\ st' = "dg"
          /\ UNCHANGED <<pvars, nlen>>
  /\ UNCHANGED i

TEnd ==
  /\ i <= N /\ st = "ev" /\ k > Len(R.ev)
  /\ IF EndConsumed /\ EndBalanced
     THEN End /\ UNCHANGED rej
     ELSE Reject(IF ~EndConsumed THEN "EndConsumed" ELSE "EndBalanced") /\ UNCHANGED pvars
  /\ k' = 1 /\ st' = "dg"
  /\ UNCHANGED <<i, nlen>>

WhyDiag ==
  IF ~RangeOrdered(D.lo, D.hi) THEN "RangeOrdered"
  ELSE IF ~RangeInside(D.lo, D.hi, D.fl) THEN "RangeInside"
  ELSE IF ~RangeOnChars(D.lb, D.hb) THEN "RangeOnChars"
  ELSE ""

TDiag ==
  /\ i <= N /\ st = "dg" /\ k <= Len(R.dg)
  /\ IF WhyDiag = ""
     THEN Error(D.lo, D.hi, D.fl, D.lb, D.hb) /\ UNCHANGED rej
     ELSE Reject(WhyDiag) /\ UNCHANGED pvars
  /\ k' = k + 1
  /\ UNCHANGED <<i, st, nlen>>

TEmit ==
  /\ i <= N /\ st = "dg" /\ k > Len(R.dg)
  /\ rej # <<>> => PrintT(<<"VERDICT", ToJson([i |-> R.i, rej |-> rej])>>)
  /\ i' = i + 1 /\ st' = "begin" /\ k' = 1
  /\ UNCHANGED <<pvars, nlen, rej>>

TraceInit ==
  /\ i = 1 /\ k = 1 /\ st = "begin" /\ nlen = <<>> /\ rej = <<>>
  /\ len = 0 /\ pos = 0 /\ stack = <<>> /\ roots = 0 /\ diags = {} /\ phase = "done"

TraceNext == TBegin \/ TEvent \/ TEnd \/ TDiag \/ TEmit
TraceSpec == TraceInit /\ [][TraceNext]_tvars

\* a record without a rejection reached End through the guards of the spec
AcceptedMeansDone == (st = "dg" /\ rej = <<>>) => phase = "done"

\* Acceptance: all records consumed.
NotAccepted == i <= N

Progress == TLCSet(1, IF TLCGet(1) < i THEN i ELSE TLCGet(1))
ProgressInit == TLCSet(1, 0)
ASSUME ProgressInit
Accepted == PrintT(<<"PROGRESS", TLCGet(1), N>>) /\ TLCGet(1) > N
=============================================================================
