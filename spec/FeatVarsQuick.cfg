\* C16 generator, quick tier.  Families (FeatVars.tla section 4), "n/size": n cases taken by a seeded stride
\* through the family's index space (exhaustive when n = size):
\*   E1 1500/8190   1 axis, 1-2 rules, 1 condition set, 18 ranges (10 closed over {-1,-1/2,0,1/2,1},
\*                  4 without minimum, 4 without maximum) x 5 maps over {a->a1, a->a2, b->b1}
\*   E2 600/27000   1 axis, 3 rules, 10 closed ranges x 3 single-glyph maps
\*   E3 600/27390   1 axis, 1-2 rules, 2 condition sets (55 pairs of closed ranges) x 3 maps
\*   E4 450/5700    2 axes, 1-2 rules, boxes over the coarse grid {-1,0,1} (3+3+9 = 15) x 5 maps
\*   E5 250/91125   2 axes, 3 rules, coarse boxes (15) x 3 maps
\*   R1 800, R2 300   pseudo-random (Lehmer generator seeded by FV_SEED): 1 / 2 axes, 1-3 rules,
\*                  1-2 condition sets, 18 ranges per axis, 5 maps
\*   M  5           3 hand-made (64, 65, 66 rules; the last one nested in the first) + 2 random:
\*                  62..65 filler rules + 2-5 random rules (merged rule list 63..67 entries)
\* Sample points per axis: 4 cell midpoints + every breakpoint -1 / +0 / +1 F2Dot14 quantum (17 values);
\* 2 axes: the full 17 x 17 product.  env: FV_SEED (0..9999).  Run with -continue -deadlock.
\* RankFixed = FALSE: Rank arithmetic as in the code before repo fix 'feature-variation rank ordering' (finding KF2);
\* TRUE: as in the code now (sort by count_ones, words aligned at the end).
CONSTANT RankFixed = TRUE
CONSTANT Families <- QuickFamilies
INIT Init
NEXT Next
INVARIANT EmitAndDesign
CHECK_DEADLOCK FALSE
