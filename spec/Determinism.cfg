\* Validation of a build log (env OBS). Success = "Invariant NotAccepted is violated" with Repeatable holding.
SPECIFICATION Spec
INVARIANTS Repeatable NotAccepted
CHECK_DEADLOCK FALSE
