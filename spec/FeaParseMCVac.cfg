\* Non-vacuity of FeaParseMC.cfg: TLC must violate NeverDoneRich (a complete parse of a maximal text with a
\* multi-byte character is reachable).  Same bounds as FeaParseMC.cfg.
CONSTANTS
  MaxLen = 4
  MaxTok = 2
  MaxDepth = 2
  Kinds = {"k1", "k2"}
SPECIFICATION MCSpec
INVARIANTS NeverDoneRich
CHECK_DEADLOCK FALSE
