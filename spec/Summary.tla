------------------------------ MODULE Summary ------------------------------
(***************************************************************************)
(* C17  Summary fields agree with the data they summarise.                 *)
(*                                                                         *)
(* A font is seen as the raw data `vh summary` measures (no summarising    *)
(* on the Rust side):                                                      *)
(*   F.g      glyph table, one record per glyph id (index gid+1):          *)
(*              k = "e" empty | "s" simple | "c" composite                 *)
(*              b = <<xMin,yMin,xMax,yMax>> stored in the glyph header     *)
(*              px, py = point coordinates, nc = contours (simple)         *)
(*              c = components: g (glyph id), dx, dy, xx,yx,xy,yy (raw     *)
(*                  F2Dot14 integers, 16384 = 1.0), fl (flags), xyargs     *)
(*   F.adv, F.lsb (hmtx, expanded), F.vadv, F.tsb (vmtx), F.cmap (code     *)
(*   points), F.loca (decoded entries), F.lay (layout rule shapes)         *)
(* and the stored summaries F.head, F.hhea, F.vhea, F.maxp, F.os2.         *)
(*                                                                         *)
(* This module DEFINES every summary field over that data (OpenType spec   *)
(* wording quoted at each definition) and `Fields(F)` pairs each stored    *)
(* value with its definition.  `Consistent(F)` = every property-level      *)
(* field agrees.  SummaryObs.tla evaluates it over observations of real    *)
(* fonts; the generator at the end enumerates glyph-table shapes that are  *)
(* turned into real sources.                                               *)
(*                                                                         *)
(* Integers stay far below 2^31: coordinates are i16, resolved composite   *)
(* points are carried in 1/64 units (|v| <= 2^21 checked), products with   *)
(* F2Dot14 numerators are split (MulFloor) so that no intermediate value   *)
(* exceeds 2^30.                                                           *)
(***************************************************************************)
EXTENDS Integers, Sequences, FiniteSets, TLC, Json, IOUtils, SequencesExt, FiniteSetsExt

\* ------------------------------------------------------------------ helpers
Min2(a, b) == IF a < b THEN a ELSE b
Max2(a, b) == IF a > b THEN a ELSE b
MinSeq(s) == FoldLeft(Min2, s[1], s)               \* s non-empty
MaxSeq(s) == FoldLeft(Max2, s[1], s)
MaxSeq0(s) == FoldLeft(Max2, 0, s)                 \* maximum of naturals, 0 if none
SumSeq(s) == FoldLeft(LAMBDA a, b : a + b, 0, s)
Abs(a) == IF a < 0 THEN 0 - a ELSE a
Idx(s) == 1..Len(s)
MapSeq(s, Op(_)) == [i \in Idx(s) |-> Op(s[i])]
\* the sub-sequence of the indices of s satisfying P
Where(s, P(_)) == SelectSeq([i \in Idx(s) |-> i], P)
I16(v) == v >= 0 - 32768 /\ v <= 32767
Bit(halves, k) == \* bit k (0..31) of a 32-bit value given as <<hi16, lo16>>
    LET h == IF k >= 16 THEN halves[1] ELSE halves[2]
        kk == IF k >= 16 THEN k - 16 ELSE k
    IN (h \div (2 ^ kk)) % 2 = 1

\* ------------------------------------------------------------------ component graph
N(F) == Len(F.g)
Glyph(F, gid) == F.g[gid + 1]
IsComp(g) == g.k = "c"
NPts(g) == IF g.k = "s" THEN Len(g.px) ELSE 0
NCtr(g) == IF g.k = "s" THEN g.nc ELSE 0

Unit == 64                     \* resolved coordinates are carried in 1/64 font units
Lim  == 2097152                \* 2^21: |coordinate| bound that keeps MulFloor below 2^30
One  == 16384                  \* F2Dot14 1.0

\* floor(m * a / 2^14) for |m| <= 2^15, |a| <= 2^21 without exceeding 32 bits:
\*   a = ah*128 + al, t = ah*m = q*128 + r  ==>  a*m = q*2^14 + r*128 + al*m
MulFloor(m, a) ==
    IF m = One THEN a ELSE IF m = 0 THEN 0 ELSE
    LET ah == a \div 128
        al == a % 128
        t  == ah * m
        q  == t \div 128
        r  == t % 128
    IN q + ((r * 128 + al * m) \div One)
MulCeil(m, a) == 0 - MulFloor(m, 0 - a)
\* the interval m * [lo, hi] / 2^14, rounded outwards
MulLo(m, lo, hi) == IF m >= 0 THEN MulFloor(m, lo) ELSE MulFloor(m, hi)
MulHi(m, lo, hi) == IF m >= 0 THEN MulCeil(m, hi) ELSE MulCeil(m, lo)

\* A resolved point is <<xlo, xhi, ylo, yhi>> (1/64 units): the exact coordinate lies in [lo, hi].
\* OpenType glyf, composite glyphs: x' = xscale*x + scale10*y + dx ; y' = scale01*x + yscale*y + dy
\* (offsets unscaled: the default when SCALED_COMPONENT_OFFSET 0x0800 is not set).
Xform(c, p) ==
    << MulLo(c.xx, p[1], p[2]) + MulLo(c.xy, p[3], p[4]) + Unit * c.dx,
       MulHi(c.xx, p[1], p[2]) + MulHi(c.xy, p[3], p[4]) + Unit * c.dx,
       MulLo(c.yx, p[1], p[2]) + MulLo(c.yy, p[3], p[4]) + Unit * c.dy,
       MulHi(c.yx, p[1], p[2]) + MulHi(c.yy, p[3], p[4]) + Unit * c.dy >>
PtOk(p) == \A k \in 1..4 : Abs(p[k]) <= Lim
Modelled(c) == c.xyargs /\ (c.fl \div 2048) % 2 = 0      \* offsets are x/y values, not scaled

\* Least fixed point over the component graph.  info[i] for glyph id i-1:
\*   known  : its components are all resolved (never for cycles or dangling references)
\*   depth  : 0 for non-composites, 1 + max over components        (maxp: "1 for simple components")
\*   pts, ctrs : totals of the resolved outline
\*   rp     : resolved points (intervals), exact = the transforms could be followed in the model
Info0(F) == [i \in 1..N(F) |->
    LET g == F.g[i] IN
    IF IsComp(g) THEN [known |-> FALSE, depth |-> 0, pts |-> 0, ctrs |-> 0, rp |-> <<>>, exact |-> TRUE]
    ELSE [known |-> TRUE, depth |-> 0, pts |-> NPts(g), ctrs |-> NCtr(g), exact |-> TRUE,
          rp |-> IF g.k = "s" THEN [j \in 1..Len(g.px) |-> <<Unit * g.px[j], Unit * g.px[j], Unit * g.py[j], Unit * g.py[j]>>]
                 ELSE <<>>]]

FlatMap(s, Op(_)) == FoldLeft(LAMBDA acc, e : acc \o Op(e), <<>>, s)

StepInfo(F, info) == [i \in 1..N(F) |->
    LET g == F.g[i] IN
    IF info[i].known \/ ~IsComp(g) THEN info[i]
    ELSE IF \A j \in Idx(g.c) : g.c[j].g < N(F) /\ info[g.c[j].g + 1].known
         THEN LET kid(c) == info[c.g + 1]
                  rp == FlatMap(g.c, LAMBDA c : MapSeq(kid(c).rp, LAMBDA p : Xform(c, p)))
              IN [known |-> TRUE,
                  depth |-> 1 + MaxSeq0(MapSeq(g.c, LAMBDA c : kid(c).depth)),
                  pts   |-> SumSeq(MapSeq(g.c, LAMBDA c : kid(c).pts)),
                  ctrs  |-> SumSeq(MapSeq(g.c, LAMBDA c : kid(c).ctrs)),
                  rp    |-> rp,
                  exact |-> /\ \A j \in Idx(g.c) : Modelled(g.c[j]) /\ kid(g.c[j]).exact
                            /\ \A j \in Idx(rp) : PtOk(rp[j])]
         ELSE info[i]]

RECURSIVE Fix(_, _, _)
Fix(F, info, fuel) ==
    LET nxt == StepInfo(F, info)
    IN IF fuel = 0 \/ \A i \in 1..N(F) : nxt[i].known = info[i].known THEN info ELSE Fix(F, nxt, fuel - 1)
Resolve(F) == Fix(F, Info0(F), N(F) + 1)

\* ------------------------------------------------------------------ the field list
\* A field: f name, s stored, d defined (a value, or <<lo, hi>> for "any value in the interval"),
\* ok, lvl "P" property-level / "D" internal expectation (drift only).
Fld(f, s, d, ok, lvl) == [f |-> f, s |-> s, d |-> d, ok |-> ok, lvl |-> lvl]
Eq(f, s, d) == Fld(f, s, d, s = d, "P")
\* optional field
Opt(cond, flds) == IF cond THEN flds ELSE <<>>

HasBox(g) == g.k = "s" \/ g.k = "c"

\* --- glyph headers
\* glyf: "xMin: Minimum x for coordinate data" (all points, on- and off-curve).
SimpleBoxFields(F) ==
    LET bad == Where(F.g, LAMBDA i : F.g[i].k = "s" /\ Len(F.g[i].px) > 0 /\
                        F.g[i].b # <<MinSeq(F.g[i].px), MinSeq(F.g[i].py), MaxSeq(F.g[i].px), MaxSeq(F.g[i].py)>>)
    IN MapSeq(bad, LAMBDA i : Fld("glyf.bbox", F.g[i].b,
                  <<MinSeq(F.g[i].px), MinSeq(F.g[i].py), MaxSeq(F.g[i].px), MaxSeq(F.g[i].py)>>, FALSE, "P")
                  @@ [gid |-> i - 1])

\* A composite's stored box covers its resolved outline: each side within 1 unit of the extreme of the
\* transformed component points (the exact extreme lies in the interval computed above).
Side(rp, k, IsMin) == \* <<lo, hi>>: bounds of the exact extreme, 1/64 units
    IF IsMin THEN << MinSeq(MapSeq(rp, LAMBDA p : p[2 * k - 1])), MinSeq(MapSeq(rp, LAMBDA p : p[2 * k])) >>
    ELSE << MaxSeq(MapSeq(rp, LAMBDA p : p[2 * k - 1])), MaxSeq(MapSeq(rp, LAMBDA p : p[2 * k])) >>
Within1(stored, iv) == Unit * stored + Unit >= iv[1] /\ Unit * stored - Unit <= iv[2]
CompBoxDef(rp) == << Side(rp, 1, TRUE), Side(rp, 2, TRUE), Side(rp, 1, FALSE), Side(rp, 2, FALSE) >>
CompBoxOk(b, rp) == LET d == CompBoxDef(rp) IN \A k \in 1..4 : Within1(b[k], d[k])
CompBoxFields(F, info) ==
    LET bad == Where(F.g, LAMBDA i : IsComp(F.g[i]) /\ info[i].known /\ info[i].exact /\ Len(info[i].rp) > 0
                        /\ ~CompBoxOk(F.g[i].b, info[i].rp))
    IN MapSeq(bad, LAMBDA i : Fld("glyf.compositeBbox", F.g[i].b,
                  MapSeq(CompBoxDef(info[i].rp), LAMBDA iv : <<iv[1] \div Unit, 0 - ((0 - iv[2]) \div Unit)>>), FALSE, "P")
                  @@ [gid |-> i - 1])
\* composites the model cannot follow (point-matched anchors, scaled offsets, coordinates out of range)
UnmodelledFields(F, info) ==
    LET un == Where(F.g, LAMBDA i : IsComp(F.g[i]) /\ info[i].known /\ ~info[i].exact)
    IN Opt(Len(un) > 0, << Fld("glyf.compositeBbox.unmodelled", Len(un), 0, FALSE, "D") >>)

\* --- head
\* head: "xMin: Minimum x coordinate across all glyph bounding boxes" (likewise yMin, xMax, yMax).
HeadFields(F) ==
    LET bx == SelectSeq(F.g, HasBox) IN
    Opt(Len(bx) > 0,
        << Eq("head.xMin", F.head.b[1], MinSeq(MapSeq(bx, LAMBDA g : g.b[1]))),
           Eq("head.yMin", F.head.b[2], MinSeq(MapSeq(bx, LAMBDA g : g.b[2]))),
           Eq("head.xMax", F.head.b[3], MaxSeq(MapSeq(bx, LAMBDA g : g.b[3]))),
           Eq("head.yMax", F.head.b[4], MaxSeq(MapSeq(bx, LAMBDA g : g.b[4]))) >>)

\* --- hhea / vhea.  OpenType hhea:
\*   advanceWidthMax     "Maximum advance width value in 'hmtx' table."
\*   minLeftSideBearing  "Minimum left sidebearing value in 'hmtx' table for glyphs with contours (empty glyphs
\*                        should be ignored)."
\*   minRightSideBearing "Minimum right sidebearing value; calculated as min(aw - (lsb + xMax - xMin)) for glyphs
\*                        with contours (empty glyphs should be ignored)."
\*   xMaxExtent          "Max(lsb + (xMax - xMin))."
\* vhea is the same with advance heights, top side bearings and yMax - yMin.
\* Glyphs with contours: simple glyphs with points, composites whose resolved outline has points.
WithContours(F, info) == Where(F.g, LAMBDA i : info[i].known /\ info[i].pts > 0)
MetricFields(name, h, adv, sb, F, info, lo, hi) ==
    LET wc   == WithContours(F, info)
        ext(i) == F.g[i].b[hi] - F.g[i].b[lo]
        allknown == \A i \in 1..N(F) : info[i].known
        minfirst  == MinSeq(MapSeq(wc, LAMBDA i : sb[i]))
        minsecond == MinSeq(MapSeq(wc, LAMBDA i : adv[i] - sb[i] - ext(i)))
        maxextent == MaxSeq(MapSeq(wc, LAMBDA i : sb[i] + ext(i)))
        \* Input class "contourless-composite": the font has composites without a single resolved point and the
        \* stored value is what one gets by treating them as glyphs with contours and the box they store.
        hollow == \E i \in 1..N(F) : IsComp(F.g[i]) /\ info[i].known /\ info[i].pts = 0
        wc2 == Where(F.g, LAMBDA i : info[i].known /\ (info[i].pts > 0 \/ IsComp(F.g[i])))
        Cls(x, alt) == IF hollow /\ x.s = alt THEN x @@ [cls |-> "contourless-composite"] ELSE x
    IN << Eq(name \o ".advanceMax", h.advmax, MaxSeq0(adv)) >>
       \o Opt(allknown /\ Len(wc) > 0,
              Opt(I16(minfirst), << Cls(Eq(name \o ".minFirstSideBearing", h.minfirst, minfirst),
                                        MinSeq(MapSeq(wc2, LAMBDA i : sb[i]))) >>)
           \o Opt(I16(minsecond), << Cls(Eq(name \o ".minSecondSideBearing", h.minsecond, minsecond),
                                         MinSeq(MapSeq(wc2, LAMBDA i : adv[i] - sb[i] - ext(i)))) >>)
           \o Opt(I16(maxextent), << Cls(Eq(name \o ".maxExtent", h.maxextent, maxextent),
                                         MaxSeq(MapSeq(wc2, LAMBDA i : sb[i] + ext(i)))) >>))

\* numberOfHMetrics: hmtx holds nlong (advance, bearing) pairs followed by N - nlong bearings; glyphs past the
\* pairs repeat the last advance.  Well-formed: 1 <= nlong <= N and the table length matches.  The count is
\* the *minimal* one when the advance before the trailing run differs from the run's (internal expectation:
\* OpenType allows any larger count).
TrailRun(adv) == \* number of glyphs in the trailing run of equal advances (>= 1)
    LET n == Len(adv)
        diff == SelectSeq([i \in 1..n |-> n + 1 - i], LAMBDA i : adv[i] # adv[n])   \* indices from the end
    IN IF Len(diff) = 0 THEN n ELSE n - diff[1]
LongFields(name, h, adv, n) ==
    << Fld(name \o ".numberOfLongMetrics.range", h.nlong, <<1, n>>, h.nlong >= 1 /\ h.nlong <= n, "P"),
       Fld(name \o ".numberOfLongMetrics.tableLength", h.len, 4 * h.nlong + 2 * (n - h.nlong),
           h.len = 4 * h.nlong + 2 * (n - h.nlong), "P"),
       Fld(name \o ".numberOfLongMetrics.minimal", h.nlong, n - TrailRun(adv) + 1,
           h.nlong = n - TrailRun(adv) + 1, "D") >>
\* the advances hmtx encodes (through the long-metric count) are the glyphs' advances in the source
SrcAdvFields(F) ==
    Opt(Len(F.meta.src_adv) = N(F),
        LET bad == Where(F.adv, LAMBDA i : F.adv[i] # F.meta.src_adv[i])
        IN MapSeq(bad, LAMBDA i : Fld("hmtx.advance", F.adv[i], F.meta.src_adv[i], FALSE, "P") @@ [gid |-> i - 1]))

\* head.flags bit 1: "Left sidebearing point at x=0": every glyph with contours has lsb = xMin.
LsbFlagFields(F, info) ==
    Opt((F.head.flags \div 2) % 2 = 1,
        LET bad == Where(F.g, LAMBDA i : info[i].known /\ info[i].pts > 0 /\ F.lsb[i] # F.g[i].b[1])
        IN MapSeq(bad, LAMBDA i : Fld("head.flags.lsbAtX0", F.lsb[i], F.g[i].b[1], FALSE, "P") @@ [gid |-> i - 1]))

\* --- maxp (version 1.0)
\*   maxPoints "Maximum points in a non-composite glyph", maxContours likewise,
\*   maxCompositePoints / maxCompositeContours "Maximum points/contours in a composite glyph",
\*   maxComponentElements "Maximum number of components referenced at top level for any composite glyph",
\*   maxComponentDepth "Maximum levels of recursion; 1 for simple components".
MaxpFields(F, info) ==
    LET comps == Where(F.g, LAMBDA i : IsComp(F.g[i]))
        allknown == \A i \in 1..N(F) : info[i].known
    IN << Eq("maxp.maxPoints", F.maxp.points, MaxSeq0(MapSeq(F.g, NPts))),
          Eq("maxp.maxContours", F.maxp.contours, MaxSeq0(MapSeq(F.g, NCtr))),
          Eq("maxp.maxComponentElements", F.maxp.celems, MaxSeq0(MapSeq(comps, LAMBDA i : Len(F.g[i].c)))),
          Fld("glyf.componentGraph", Len(Where(F.g, LAMBDA i : ~info[i].known)), 0, allknown, "P") >>
       \o Opt(allknown,
          << Eq("maxp.maxCompositePoints", F.maxp.cpoints, MaxSeq0(MapSeq(comps, LAMBDA i : info[i].pts))),
             Eq("maxp.maxCompositeContours", F.maxp.ccontours, MaxSeq0(MapSeq(comps, LAMBDA i : info[i].ctrs))),
             Eq("maxp.maxComponentDepth", F.maxp.cdepth, MaxSeq0(MapSeq(comps, LAMBDA i : info[i].depth))) >>)

\* --- loca / head.indexToLocFormat
\* loca: N+1 entries; short format stores offset/2 in uint16, long format offset in uint32; offsets are
\* non-decreasing and the last one is the end of the glyph data.  The short format is the expected choice
\* whenever every offset fits (internal expectation).
LocaFields(F) ==
    LET L == F.loca
        n == N(F)
        fmtok == L.fmt = 0 \/ L.fmt = 1
        esz == IF L.fmt = 0 THEN 2 ELSE 4
        mono == \A i \in 1..(Len(L.offs) - 1) : L.offs[i] <= L.offs[i + 1]
        last == IF Len(L.offs) > 0 THEN L.offs[Len(L.offs)] ELSE 0
    IN << Fld("head.indexToLocFormat", L.fmt, <<0, 1>>, fmtok, "P") >>
       \o Opt(fmtok,
          << Fld("loca.length", L.len, esz * (n + 1), L.len = esz * (n + 1), "P"),
             Fld("loca.offsets.ascending", 0, 0, mono, "P"),
             Fld("loca.offsets.end", last, L.glyf_len, last <= L.glyf_len /\ L.glyf_len - last < 4, "P"),
             Fld("head.indexToLocFormat.shortWhenPossible", L.fmt, IF L.glyf_len <= 131070 THEN 0 ELSE 1,
                 L.fmt = (IF L.glyf_len <= 131070 THEN 0 ELSE 1), "D") >>)

\* --- OS/2
\* xAvgCharWidth (version >= 3): "the arithmetic average of the escapement (width) of all non-zero width
\* glyphs in the font".  The rounding is not specified: any integer within 1 of the exact average agrees.
AvgFields(F) ==
    LET nz == SelectSeq(F.adv, LAMBDA a : a > 0)
        cnt == Len(nz)
        tot == SumSeq(nz)
    IN Opt(F.os2.version >= 3 /\ cnt > 0 /\ cnt * 65535 < 2000000000,
           << Fld("OS/2.xAvgCharWidth", F.os2.xavg, <<tot \div cnt, 0 - ((0 - tot) \div cnt)>>,
                  Abs(cnt * F.os2.xavg - tot) < cnt, "P") >>)
\* usFirstCharIndex "minimum Unicode index in this font ... 0xFFFF if the minimum index is > 0xFFFF";
\* usLastCharIndex likewise with the maximum.
CharIndexFields(F) ==
    Opt(Len(F.cmap) > 0,
        << Eq("OS/2.usFirstCharIndex", F.os2.first, Min2(MinSeq(F.cmap), 65535)),
           Eq("OS/2.usLastCharIndex", F.os2.last, Min2(MaxSeq(F.cmap), 65535)) >>)

\* ulUnicodeRange: ranges stated from the OpenType specification (OS/2, "ulUnicodeRange1-4"); only bits whose
\* complete list of blocks is certain are checked.  A bit agrees with cmap when it is set exactly if some
\* mapped code point lies in one of its blocks (bit 57 "Non-Plane 0": any code point beyond the BMP).
URanges == << [bit |-> 0,  r |-> << <<0, 127>> >>],                                  \* Basic Latin
              [bit |-> 1,  r |-> << <<128, 255>> >>],                                \* Latin-1 Supplement
              [bit |-> 7,  r |-> << <<880, 1023>> >>],                               \* Greek and Coptic
              [bit |-> 9,  r |-> << <<1024, 1279>>, <<1280, 1327>>, <<11744, 11775>>, <<42560, 42655>> >>],
                                                 \* Cyrillic, Cyrillic Supplement, Extended-A, Extended-B
              [bit |-> 11, r |-> << <<1424, 1535>> >>],                              \* Hebrew
              [bit |-> 13, r |-> << <<1536, 1791>>, <<1872, 1919>> >>],              \* Arabic, Arabic Supplement
              [bit |-> 57, r |-> << <<65536, 1114111>> >> ] >>                       \* Non-Plane 0
InRanges(cps, rs) == \E i \in Idx(cps) : \E j \in Idx(rs) : cps[i] >= rs[j][1] /\ cps[i] <= rs[j][2]
URBit(F, k) == Bit(F.os2.ur[(k \div 32) + 1], k % 32)
UnicodeRangeFields(F) ==
    Opt(~F.meta.explicit_ranges,
        MapSeq(URanges, LAMBDA u : Fld("OS/2.ulUnicodeRange.bit" \o ToString(u.bit),
                                       URBit(F, u.bit), InRanges(F.cmap, u.r),
                                       URBit(F, u.bit) = InRanges(F.cmap, u.r), "P")))
\* ulCodePageRange: "functional" is left to the producer, so only the part every reading shares is stated:
\* a code page of a script cannot be claimed without a single character of that script's block.
CPages == << [bit |-> 2,  r |-> << <<1024, 1279>> >>],       \* 1251 Cyrillic
             [bit |-> 3,  r |-> << <<880, 1023>> >>],        \* 1253 Greek
             [bit |-> 5,  r |-> << <<1424, 1535>> >>],       \* 1255 Hebrew
             [bit |-> 6,  r |-> << <<1536, 1791>> >>],       \* 1256 Arabic
             [bit |-> 16, r |-> << <<3584, 3711>> >> ] >>    \* 874 Thai
CPBit(F, k) == Bit(F.os2.cpr[(k \div 32) + 1], k % 32)
CodePageFields(F) ==
    Opt(~F.meta.explicit_ranges /\ F.os2.hascpr,
        MapSeq(CPages, LAMBDA u : Fld("OS/2.ulCodePageRange.bit" \o ToString(u.bit),
                                     CPBit(F, u.bit), InRanges(F.cmap, u.r),
                                     CPBit(F, u.bit) => InRanges(F.cmap, u.r), "P")))
\* usMaxContext: "The maximum length of a target glyph context for any feature in this font. For example, a
\* font which has only a pair kerning feature should set this field to 2. [a ligature f f i gives 3] ... For
\* chaining contextual lookups, the length of the string (covered glyph) + (input sequence) + (lookahead
\* sequence) should be considered."  Attachment lookups are not mentioned: they count 0 here, so the stored
\* value may not be smaller than the definition (property) and is expected to equal it (internal).
RuleCtx(r) == IF r.k = "attach" THEN 0 ELSE r["in"] + r.la
MaxCtx(F) == MaxSeq0(MapSeq(F.lay.rules, RuleCtx))
MaxCtxFields(F) ==
    Opt(F.os2.maxctx >= 0 /\ F.lay.errors = 0,
        << Fld("OS/2.usMaxContext.atLeast", F.os2.maxctx, MaxCtx(F), F.os2.maxctx >= MaxCtx(F), "P"),
           Fld("OS/2.usMaxContext.exact", F.os2.maxctx, MaxCtx(F), F.os2.maxctx = MaxCtx(F), "D") >>
        \o Opt(~F.lay.gsub /\ ~F.lay.gpos, << Eq("OS/2.usMaxContext.noLayout", F.os2.maxctx, 0) >>))

Fields(F) ==
    LET info == Resolve(F) IN
       SimpleBoxFields(F) \o CompBoxFields(F, info) \o UnmodelledFields(F, info)
    \o HeadFields(F) \o LsbFlagFields(F, info)
    \o MetricFields("hhea", F.hhea, F.adv, F.lsb, F, info, 1, 3) \o LongFields("hhea", F.hhea, F.adv, N(F))
    \o SrcAdvFields(F)
    \o Opt(F.hasv, MetricFields("vhea", F.vhea, F.vadv, F.tsb, F, info, 2, 4)
                   \o LongFields("vhea", F.vhea, F.vadv, N(F)))
    \o MaxpFields(F, info) \o LocaFields(F)
    \o AvgFields(F) \o CharIndexFields(F) \o UnicodeRangeFields(F) \o CodePageFields(F) \o MaxCtxFields(F)

Failing(F) == SelectSeq(Fields(F), LAMBDA x : ~x.ok)
Consistent(F) == \A i \in Idx(Fields(F)) : Fields(F)[i].lvl = "P" => Fields(F)[i].ok

=============================================================================
