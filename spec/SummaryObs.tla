---------------------------- MODULE SummaryObs ----------------------------
(***************************************************************************)
(* C17 observation validation: env OBS = ndjson file, one record per       *)
(* compiled font as measured by `vh summary` (vocabulary: Summary.tla).    *)
(* Every record is one state (the states form a binary tree over the       *)
(* record indices so that TLC's workers evaluate different fonts in        *)
(* parallel); the invariant evaluates Summary!Fields on it and prints      *)
(*   <<"FAIL", json of [id, field, stored, defined, level, gid]>> for      *)
(* each field that does not agree and <<"CHECKED", id, #fields, #failing>>.*)
(* The invariant itself is `every field was evaluated`; the Python side    *)
(* turns FAIL lines of level P into violations and of level D into drift.  *)
(***************************************************************************)
EXTENDS Summary

VARIABLE gi

Rec == ndJsonDeserialize(IOEnv.OBS)

ObsInit == gi = 1
ObsNext == \E j \in {2 * gi, 2 * gi + 1} : j <= Len(Rec) /\ gi' = j

Report(F) ==
    LET all == Fields(F)
        bad == SelectSeq(all, LAMBDA x : ~x.ok)
    IN /\ \A i \in Idx(bad) :
             PrintT(<<"FAIL", ToJson([id |-> F.id, f |-> bad[i].f, s |-> bad[i].s, d |-> bad[i].d,
                                      lvl |-> bad[i].lvl,
                                      gid |-> IF "gid" \in DOMAIN bad[i] THEN bad[i].gid ELSE 0 - 1,
                                      cls |-> IF "cls" \in DOMAIN bad[i] THEN bad[i].cls ELSE "-"])>>)
       /\ PrintT(<<"CHECKED", F.id, Len(all), Len(bad)>>)
ObsChecked == gi <= Len(Rec) => Report(Rec[gi])
=============================================================================
