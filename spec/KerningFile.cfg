\* C09 observation mode: cases (glyphs, masters with groups and kerning read from UFO plists) come from the ndjson
\* file named by the environment variable C09_CASES; the oracle UfoLookup is evaluated, the transcription only when the case says model = true (--replay).
\* The generator constants are unused.
SPECIFICATION Spec
CONSTANTS
    Source = "file"
    NGlyphs = 1
    Names1 = {}
    Names2 = {}
    NMasters = {1}
    DefaultAt = {"first"}
    MaxEntries = 0
    MaxTotal = 0
    PosVals = {0}
    NegVals = {}
    Den = 1
    SameBias = FALSE
INVARIANTS
    Emit
CHECK_DEADLOCK FALSE
