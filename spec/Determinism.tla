---------------------------- MODULE Determinism ----------------------------
(***************************************************************************)
(* C01: the font is a function of (source, options).                       *)
(*                                                                         *)
(* A log of builds of the real compiler (env OBS, ndjson: one record per   *)
(* build with the source+options key, the configuration it ran under --    *)
(* process, thread count, jitter seed, entry point, IR emission -- and the *)
(* digest of the bytes it produced) is replayed; `memo` remembers the      *)
(* first digest seen per key and every later build of the same key must    *)
(* reproduce it.  The schedule dimension of the same property is decided   *)
(* on the model by Workload.tla (OrderOK, ReadsFromCanonical).             *)
(***************************************************************************)
EXTENDS Naturals, Sequences, FiniteSets, TLC, Json, IOUtils

Obs == ndJsonDeserialize(IOEnv.OBS)
Keys == {Obs[i].key : i \in DOMAIN Obs}

VARIABLES memo, k, clash

Init ==
  /\ memo = [x \in Keys |-> "none"]
  /\ k = 1
  /\ clash = 0

\* one build finishes
Build ==
  /\ k <= Len(Obs)
  /\ LET o == Obs[k] IN
       /\ memo' = IF memo[o.key] = "none" THEN [memo EXCEPT ![o.key] = o.digest] ELSE memo
       /\ clash' = IF memo[o.key] \notin {"none", o.digest} THEN k ELSE clash
  /\ k' = k + 1

Spec == Init /\ [][Build]_<<memo, k, clash>>

\* same source, same options => same bytes, whatever the process / threads / interleaving / route
Repeatable == clash = 0

NotAccepted == k <= Len(Obs)
ReportProgress == PrintT(<<"PROGRESS", k, Len(Obs)>>)
=============================================================================
