\* Generator D: every two-lookup program with one rule per lookup from FeaSem!RedM (9 mark-sensitive rules),
\* explicit lookupflags from {IgnoreMarks, UseMarkFilteringSet @C4=[m], UseMarkFilteringSet @C5=[n],
\* MarkAttachmentType @C4, MarkAttachmentType @C5} for each lookup, 4 structure templates (same feature,
\* standalone block + reference, script statement in between, two blocks of one feature): 8100 candidates.
\* Glyphs a b c d m n (m, n marks); input strings over a b c m n.
CONSTANTS Stride = 1 Offset = 0
INIT InitD
NEXT NextNone
INVARIANT EmitCase
CHECK_DEADLOCK FALSE
