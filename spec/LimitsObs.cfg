\* C19 observation validator: env OBS = ndjson file of observed builds (see LimitsObs.tla).  One state per
\* record; the invariant prints the verdict of the acceptance relation of Limits.tla.  No bounds of its own.
CONSTANT Tier = "quick"
INIT InitObs
NEXT NextObs
INVARIANT EmitVerdict
CHECK_DEADLOCK FALSE
