-------------------------------- MODULE Sfnt --------------------------------
(***************************************************************************)
(* C05  Every emitted font is a well-formed, internally consistent         *)
(* OpenType file.                                                          *)
(*                                                                         *)
(* State = what `vh sfnt` measures from the bytes of one compiled font:    *)
(*   F.dir     the sfnt header and table directory as stored, plus for     *)
(*             every record the measured word sum of the table's bytes,    *)
(*             the number of non-zero padding bytes and whether the table  *)
(*             lies inside the file; the word sum of the whole file and    *)
(*             the stored head.checkSumAdjustment (32-bit values are       *)
(*             <<hi16, lo16>>: TLC integers are 32-bit signed)             *)
(*   F.counts  the glyph / axis counts each table declares or implies      *)
(*   F.glyphs  kind, points, contours and component glyph ids per glyph    *)
(*   F.gid_uses, F.layout, F.name_ids / F.name_uses, F.stores, F.varidx    *)
(*             every glyph id, lookup index, feature index, name id,       *)
(*             region index and delta-set index found while walking every  *)
(*             field of every table, with the place it was found           *)
(*   F.errors  fields / offsets read-fonts could not parse                 *)
(*   F.meta    what the source makes unambiguous (tables that must / must  *)
(*             not be there)                                               *)
(*                                                                         *)
(* `Fields(F)` is the list of requirements, each with the stored and the   *)
(* required value; `WellFormed(F)` = every property-level one holds.       *)
(* SfntObs.tla evaluates it over observations of real fonts.               *)
(***************************************************************************)
EXTENDS Integers, Sequences, FiniteSets, TLC, Json, IOUtils, SequencesExt, FiniteSetsExt

Max2(a, b) == IF a > b THEN a ELSE b
MaxSeq0(s) == FoldLeft(Max2, 0, s)
SumSeq(s) == FoldLeft(LAMBDA a, b : a + b, 0, s)
Idx(s) == 1..Len(s)
MapSeq(s, Op(_)) == [i \in Idx(s) |-> Op(s[i])]
Where(s, P(_)) == SelectSeq([i \in Idx(s) |-> i], P)
FlatMap(s, Op(_)) == FoldLeft(LAMBDA acc, e : acc \o Op(e), <<>>, s)
Opt(cond, flds) == IF cond THEN flds ELSE <<>>

Fld(f, s, d, ok, lvl) == [f |-> f, s |-> s, d |-> d, ok |-> ok, lvl |-> lvl]
Req(f, s, d, ok) == Fld(f, s, d, ok, "P")
Eq(f, s, d) == Fld(f, s, d, s = d, "P")

\* ------------------------------------------------------------------ 32-bit arithmetic on <<hi16, lo16>>
Add32(a, b) == LET lo == a[2] + b[2] IN << (a[1] + b[1] + (lo \div 65536)) % 65536, lo % 65536 >>
Sub32(a, b) == LET borrow == IF a[2] < b[2] THEN 1 ELSE 0
               IN << (a[1] - b[1] - borrow) % 65536, (a[2] - b[2]) % 65536 >>
Less32(a, b) == a[1] < b[1] \/ (a[1] = b[1] /\ a[2] < b[2])
Magic == <<45488, 44986>>                      \* 0xB1B0AFBA
Pad4(n) == ((n + 3) \div 4) * 4
RECURSIVE Log2(_)
Log2(n) == IF n <= 1 THEN 0 ELSE 1 + Log2(n \div 2)      \* floor(log2 n), n >= 1

Tags(F) == {F.dir.recs[i].tag : i \in Idx(F.dir.recs)}
Has(F, t) == t \in Tags(F)

\* ------------------------------------------------------------------ container (OpenType "Organization of an
\* OpenType Font": table directory sorted by tag, tables 4-byte aligned and zero padded, checksums)
DirFields(F) ==
    LET D == F.dir
        R == D.recs
        n == Len(R)
        recAt(f, i, s, d, ok) == Fld(f, s, d, ok, "P") @@ [at |-> R[i].tag]
    IN << Eq("sfnt.version", D.version, <<1, 0>>),
          Eq("sfnt.numTables", D.num, n),
          Eq("sfnt.searchRange", D.search, 16 * (2 ^ Log2(Max2(n, 1)))),
          Eq("sfnt.entrySelector", D.selector, Log2(Max2(n, 1))),
          Eq("sfnt.rangeShift", D.shift, 16 * n - 16 * (2 ^ Log2(Max2(n, 1)))),
          Req("directory.sortedByTag", 0, 0, \A i \in 1..(n - 1) : Less32(R[i].tagn, R[i + 1].tagn)) >>
       \o FlatMap([i \in 1..n |-> i], LAMBDA i :
            << recAt("table.offsetAligned", i, R[i].off, 0, R[i].off % 4 = 0),
               recAt("table.afterDirectory", i, R[i].off, 12 + 16 * n, R[i].off >= 12 + 16 * n),
               recAt("table.withinFile", i, <<R[i].off, R[i].len>>, D.flen, R[i].infile),
               recAt("table.paddingZero", i, R[i].padnz, 0, R[i].padnz = 0),
               \* "head" is summed with checkSumAdjustment taken as zero
               recAt("table.checksum", i, R[i].ck,
                     IF R[i].tag = "head" THEN Sub32(R[i].sum, D.headadj) ELSE R[i].sum,
                     R[i].infile => R[i].ck = (IF R[i].tag = "head" THEN Sub32(R[i].sum, D.headadj) ELSE R[i].sum)) >>)
       \o << Req("tables.nonOverlapping", 0, 0,
                 \A i, j \in 1..n : i # j => (R[i].off + R[i].len <= R[j].off \/ R[j].off + R[j].len <= R[i].off
                                               \/ R[i].len = 0 \/ R[j].len = 0)),
             \* head.checkSumAdjustment = 0xB1B0AFBA - (sum of the file with that field taken as zero)
             Eq("head.checkSumAdjustment", D.headadj, Sub32(Magic, Sub32(D.filesum, D.headadj))) >>

\* ------------------------------------------------------------------ required tables
Required == <<"cmap", "head", "hhea", "hmtx", "maxp", "name", "OS/2", "post", "glyf", "loca">>
NeedFvar == <<"gvar", "avar", "HVAR", "VVAR", "MVAR", "cvar">>
PresenceFields(F) ==
       MapSeq(Required, LAMBDA t : Fld("required." \o t, Has(F, t), TRUE, Has(F, t), "P"))
    \o MapSeq(SelectSeq(NeedFvar, LAMBDA t : Has(F, t)),
              LAMBDA t : Fld("variationTableWithoutFvar." \o t, Has(F, "fvar"), TRUE, Has(F, "fvar"), "P"))
    \o << Req("vhea<=>vmtx", Has(F, "vmtx"), Has(F, "vhea"), Has(F, "vmtx") = Has(F, "vhea")),
          Req("VVAR=>vmtx", Has(F, "vmtx"), TRUE, Has(F, "VVAR") => Has(F, "vmtx")),
          \* OpenType Font Variations overview: STAT is required in variable fonts
          Req("fvar=>STAT", Has(F, "STAT"), TRUE, Has(F, "fvar") => Has(F, "STAT")) >>
    \* what the source makes unambiguous (assembly: a table the build produced is in the font, and no
    \* variation table in a font built from a static source)
    \o MapSeq(F.meta.expect, LAMBDA t : Fld("assembly.expected." \o t, Has(F, t), TRUE, Has(F, t), "P"))
    \o MapSeq(F.meta.forbid, LAMBDA t : Fld("assembly.unexpected." \o t, Has(F, t), FALSE, ~Has(F, t), "P"))

\* ------------------------------------------------------------------ glyph-count agreement
CountFields(F) ==
    LET C == F.counts
        ng == C.num_glyphs
        esz == IF C.locfmt = 0 THEN 2 ELSE 4
    IN << Eq("loca.entries", C.loca_len, esz * (ng + 1)),
          Req("hhea.numberOfHMetrics", C.nlong_h, <<1, ng>>, C.nlong_h >= 1 /\ C.nlong_h <= ng),
          Eq("hmtx.length", C.hmtx_len, 4 * C.nlong_h + 2 * (ng - C.nlong_h)) >>
       \o Opt(Has(F, "vmtx") /\ Has(F, "vhea"),
          << Req("vhea.numOfLongVerMetrics", C.nlong_v, <<1, ng>>, C.nlong_v >= 1 /\ C.nlong_v <= ng),
             Eq("vmtx.length", C.vmtx_len, 4 * C.nlong_v + 2 * (ng - C.nlong_v)) >>)
       \o Opt(C.post_version = <<2, 0>>,
          << Eq("post.numGlyphs", C.post_num_glyphs, ng),
             Req("post.glyphNameIndex", C.post_max_name_index, 257 + C.post_strings,
                 C.post_max_name_index < 258 + C.post_strings) >>)
       \o Opt(Has(F, "gvar"),
          << Eq("gvar.glyphCount", C.gvar.glyph_count, ng),
             Eq("gvar.axisCount", C.gvar.axis_count, C.fvar_axes) >>)
       \o Opt(Has(F, "avar"), << Eq("avar.axisCount", C.avar_axes, C.fvar_axes) >>)
       \o Opt(Has(F, "fvar"), << Req("fvar.axisCount", C.fvar_axes, 1, C.fvar_axes >= 1) >>)
       \o Opt(Has(F, "STAT") /\ Has(F, "fvar"),
          << Req("STAT.designAxisCount", C.stat_axes, C.fvar_axes, C.stat_axes >= C.fvar_axes) >>)
       \o Opt(Has(F, "STAT"),
          << Req("STAT.axisIndex", C.stat_axis_uses, C.stat_axes,
                 \A i \in Idx(C.stat_axis_uses) : C.stat_axis_uses[i] < C.stat_axes) >>)

\* ------------------------------------------------------------------ references
Bad(ids, P(_)) == SelectSeq(ids, LAMBDA x : ~P(x))
UseFields(name, uses, P(_), limit) ==
    FlatMap(uses, LAMBDA u :
        Opt(Len(Bad(u.ids, P)) > 0, << Fld(name, Bad(u.ids, P), limit, FALSE, "P") @@ [at |-> u.where] >>))
GidFields(F) == UseFields("glyphId.inRange", F.gid_uses, LAMBDA g : g < F.counts.num_glyphs, F.counts.num_glyphs)
LayoutFields(F) ==
    FlatMap(F.layout, LAMBDA L :
        UseFields("lookupIndex.inRange", L.lookup_uses, LAMBDA x : x < L.lookup_count, L.lookup_count)
     \o UseFields("featureIndex.inRange", L.feature_uses, LAMBDA x : x < L.feature_count, L.feature_count))
NameFields(F) ==
    LET ids == {F.name_ids[i] : i \in Idx(F.name_ids)}
    IN UseFields("nameId.exists", F.name_uses, LAMBDA x : x \in ids, F.name_ids)

\* ItemVariationStore: axis count = fvar's, region indices < region count, delta-set indices address an
\* existing row (0xFFFF/0xFFFF = "no variation data").
NoVar(p) == p[1] = 65535 /\ p[2] = 65535
RowOk(S, p) == NoVar(p) \/ (p[1] < Len(S.data) /\ p[2] < S.data[p[1] + 1].item_count)
StoreFields(F) ==
    FlatMap(F.stores, LAMBDA S :
        << Fld("variationStore.axisCount", S.axis_count, F.counts.fvar_axes,
               S.axis_count = F.counts.fvar_axes, "P") @@ [at |-> S.table],
           Fld("variationStore.regionIndex", S.region_count, S.region_count,
               \A i \in Idx(S.data) : \A j \in Idx(S.data[i].regions) : S.data[i].regions[j] < S.region_count,
               "P") @@ [at |-> S.table],
           Fld("variationStore.parse", S.error, "", S.error = "", "P") @@ [at |-> S.table] >>
        \o FlatMap(S.maps, LAMBDA M :
             Opt(M.present,
                 << Fld("deltaSetIndexMap.entries", Bad(M.entries, LAMBDA p : RowOk(S, p)), 0,
                        Len(Bad(M.entries, LAMBDA p : RowOk(S, p))) = 0, "P") @@ [at |-> S.table \o "." \o M.name] >>))
        \* no advance map: glyph id = inner index of row set 0
        \o Opt((S.table = "HVAR" \/ S.table = "VVAR") /\ \E k \in Idx(S.maps) : S.maps[k].name = "advance" /\ ~S.maps[k].present,
               << Fld("variationStore.implicitGlyphMap", IF Len(S.data) > 0 THEN S.data[1].item_count ELSE 0,
                      F.counts.num_glyphs, Len(S.data) > 0 /\ S.data[1].item_count >= F.counts.num_glyphs, "P")
                  @@ [at |-> S.table] >>))
StoreFor(F, t) == \* the store a table's VariationIndex records refer to
    LET own == IF t = "MVAR" \/ t = "BASE" THEN t ELSE "GDEF"
        hit == SelectSeq(F.stores, LAMBDA S : S.table = own)
    IN hit
VarIdxFields(F) ==
    FlatMap(F.varidx, LAMBDA V :
        LET st == StoreFor(F, V.table)
            used == SelectSeq(V.pairs, LAMBDA p : ~NoVar(p))
        IN IF Len(st) = 0
           THEN Opt(Len(used) > 0, << Fld("variationIndex.storeMissing", used, 0, FALSE, "P") @@ [at |-> V.table] >>)
           ELSE LET bad == Bad(V.pairs, LAMBDA p : RowOk(st[1], p))
                IN Opt(Len(bad) > 0, << Fld("variationIndex.inRange", bad, 0, FALSE, "P") @@ [at |-> V.table] >>))

\* ------------------------------------------------------------------ component graph vs maxp
IsComp(g) == g.k = "c"
Info0(F) == [i \in Idx(F.glyphs) |->
    IF IsComp(F.glyphs[i]) THEN [known |-> FALSE, depth |-> 0, pts |-> 0, ctrs |-> 0]
    ELSE [known |-> TRUE, depth |-> 0, pts |-> F.glyphs[i].np, ctrs |-> F.glyphs[i].nc]]
StepInfo(F, info) == [i \in Idx(F.glyphs) |->
    LET g == F.glyphs[i] IN
    IF info[i].known \/ ~IsComp(g) THEN info[i]
    ELSE IF \A j \in Idx(g.c) : g.c[j] < Len(F.glyphs) /\ info[g.c[j] + 1].known
         THEN [known |-> TRUE, depth |-> 1 + MaxSeq0(MapSeq(g.c, LAMBDA c : info[c + 1].depth)),
               pts |-> SumSeq(MapSeq(g.c, LAMBDA c : info[c + 1].pts)),
               ctrs |-> SumSeq(MapSeq(g.c, LAMBDA c : info[c + 1].ctrs))]
         ELSE info[i]]
RECURSIVE Fix(_, _, _)
Fix(F, info, fuel) ==
    LET nxt == StepInfo(F, info)
    IN IF fuel = 0 \/ \A i \in Idx(F.glyphs) : nxt[i].known = info[i].known THEN info ELSE Fix(F, nxt, fuel - 1)
GraphFields(F) ==
    LET info == Fix(F, Info0(F), Len(F.glyphs) + 1)
        G == F.glyphs
        M == F.counts.maxp
        comps == Where(G, LAMBDA i : IsComp(G[i]))
        stuck == Where(G, LAMBDA i : ~info[i].known)           \* on a cycle or referring outside the font
    IN << Req("glyf.glyphCount", Len(G), F.counts.num_glyphs, Len(G) = F.counts.num_glyphs),
          Req("componentGraph.acyclic", MapSeq(stuck, LAMBDA i : i - 1), <<>>, Len(stuck) = 0),
          Req("maxp.maxPoints.covers", MaxSeq0(MapSeq(G, LAMBDA g : g.np)), M.points,
              \A i \in Idx(G) : G[i].np <= M.points),
          Req("maxp.maxContours.covers", MaxSeq0(MapSeq(G, LAMBDA g : g.nc)), M.contours,
              \A i \in Idx(G) : G[i].nc <= M.contours),
          Req("maxp.maxComponentElements.covers", MaxSeq0(MapSeq(comps, LAMBDA i : Len(G[i].c))), M.celems,
              \A k \in Idx(comps) : Len(G[comps[k]].c) <= M.celems) >>
       \o Opt(Len(stuck) = 0,
          << Req("maxp.maxComponentDepth.covers", MaxSeq0(MapSeq(comps, LAMBDA i : info[i].depth)), M.cdepth,
                 \A k \in Idx(comps) : info[comps[k]].depth <= M.cdepth),
             Req("maxp.maxCompositePoints.covers", MaxSeq0(MapSeq(comps, LAMBDA i : info[i].pts)), M.cpoints,
                 \A k \in Idx(comps) : info[comps[k]].pts <= M.cpoints),
             Req("maxp.maxCompositeContours.covers", MaxSeq0(MapSeq(comps, LAMBDA i : info[i].ctrs)), M.ccontours,
                 \A k \in Idx(comps) : info[comps[k]].ctrs <= M.ccontours) >>)

\* ------------------------------------------------------------------ parse
ParseFields(F) ==
    << Req("font.readable", F.readable, TRUE, F.readable) >>
    \o MapSeq(F.errors, LAMBDA e : Fld("table.parses", e.error, "", FALSE, "P") @@ [at |-> e.path])
    \o Opt(Len(F.unwalked) > 0, << Fld("table.walked", F.unwalked, <<>>, FALSE, "D") >>)

Fields(F) ==
    DirFields(F)
    \o IF ~F.readable THEN ParseFields(F)
       ELSE PresenceFields(F) \o CountFields(F) \o GidFields(F) \o LayoutFields(F) \o NameFields(F)
            \o StoreFields(F) \o VarIdxFields(F) \o GraphFields(F) \o ParseFields(F)

WellFormed(F) == \A i \in Idx(Fields(F)) : Fields(F)[i].lvl = "P" => Fields(F)[i].ok
=============================================================================
