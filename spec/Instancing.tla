------------------------------ MODULE Instancing ------------------------------
(***************************************************************************)
(* C03 / C04: instantiating a variable font at a master location gives     *)
(* back that master.                                                       *)
(*                                                                         *)
(* Part 1  ACCEPTANCE RELATION (constant-free, integer arithmetic only).   *)
(*   Evaluated by TLC on observations of real fonts (InstancingObs.tla).   *)
(*   Observed numbers are integer intervals [lo,hi] = [floor(x*S),         *)
(*   ceil(x*S)] (S = record field `scale`, 1024); an observed value is     *)
(*   accepted when its interval meets the allowed interval, so the scaling *)
(*   can hide a violation smaller than 1/S but can never raise an alarm.   *)
(*   Tents and locations are F2Dot14 bits (value * 16384).  The sum of the *)
(*   active region scalars is computed here from the tents read out of the *)
(*   font's gvar tuple headers, rounded UP in units of 1/16384 after every *)
(*   multiplication (never smaller than the true sum: conservative).       *)
(*                                                                         *)
(*   C03 bound per coordinate:  |font - Round(master)| <= 1/2 + 1/2*Sum    *)
(*       (1/2: every delta is rounded as it is produced, VarModel lemma    *)
(*        Reproduces; 1/2*Sum: IUP may move every tuple's delta of an      *)
(*        inferred point by its tolerance 1/2, scaled by that tuple's      *)
(*        scalar), exact at the default location.                          *)
(*   Composite glyphs are accepted level by level: outline(K,L) minus      *)
(*       outline(base,L) must be the rounded master offset of K within K's *)
(*       own bound (K's gvar tuples), exact at the default.                *)
(*   C04: advance (hmtx+HVAR, vmtx+VVAR) within 1 unit of the rounded      *)
(*       master advance and within 1 unit of the gvar phantom-point        *)
(*       advance; MVAR-evaluated metric within 1/2 of the rounded master   *)
(*       value (deltas are integers, scalars are fractions: "equal" can    *)
(*       only mean "rounds to", ties either way) when the master location  *)
(*       is exactly representable, else (fixtures, F2Dot14-quantised       *)
(*       locations) within 1; default values exact.                        *)
(*                                                                         *)
(* Part 2  GENERATOR.  One state = one abstract variable font (master      *)
(*   layout on the half grid, glyph kinds, sparse sources, values          *)
(*   producing .5 ties, advances, global metrics) emitted as a REPLAY line *)
(*   together with the expected rounded master values.                     *)
(*                                                                         *)
(* Part 3  DESIGN-LEVEL CHECK.  The variation model of VarModel.tla (C07)  *)
(*   applied to the generated columns: rounded-delta accumulation gives    *)
(*   back every master within 1/2 and the default exactly, for every       *)
(*   (sub-)model the case uses.                                            *)
(*                                                                         *)
(* Style note: TLC re-evaluates a LET definition at every reference but    *)
(* evaluates an operator argument at most once, so every value that is     *)
(* used more than once is passed down as an operator argument.             *)
(***************************************************************************)
EXTENDS Integers, Sequences, FiniteSets, TLC, Json, IOUtils, FiniteSetsExt, SequencesExt

CONSTANTS NAxes     \* number of axes of the generated fonts (1..3); not used by the acceptance relation

VARIABLES st        \* generator: <<"root">>, <<"grp", i>>, <<"case", S, v>>; observation mode: record index
vars == <<st>>

Force(s) == s \o <<>>
F14 == 16384

---------------------------------------------------------------------------
(* Part 1: acceptance relation *)

CeilDiv(a, b) == -((-a) \div b)          \* b > 0

\* one axis of the OpenType tent, accumulated: acc (0..16384) times the axis scalar, rounded up.
\* t = <<start, peak, end>>, v = coordinate, all F2Dot14 bits
AxisUp(acc, t, v) ==
    IF t[1] > t[2] \/ t[2] > t[3] THEN acc
    ELSE IF t[1] < 0 /\ t[3] > 0 /\ t[2] # 0 THEN acc
    ELSE IF t[2] = 0 THEN acc
    ELSE IF v < t[1] \/ v > t[3] THEN 0
    ELSE IF v = t[2] THEN acc
    ELSE IF v < t[2] THEN CeilDiv(acc * (v - t[1]), t[2] - t[1])
    ELSE CeilDiv(acc * (t[3] - v), t[3] - t[2])

RECURSIVE ScalarUpFrom(_, _, _, _)
ScalarUpFrom(tents, loc, a, acc) ==
    IF a > Len(tents) \/ acc = 0 THEN acc
    ELSE ScalarUpFrom(tents, loc, a + 1, AxisUp(acc, tents[a], IF a <= Len(loc) THEN loc[a] ELSE 0))
\* scalar of one region at loc, in 1/16384, rounded up
ScalarUp(tents, loc) == ScalarUpFrom(tents, loc, 1, F14)

RECURSIVE SumUpFrom(_, _, _, _)
SumUpFrom(tuples, loc, i, acc) ==
    IF i > Len(tuples) THEN acc ELSE SumUpFrom(tuples, loc, i + 1, acc + ScalarUp(tuples[i], loc))
\* sum of the scalars of all tuples at loc, in 1/16384, rounded up
SumUp(tuples, loc) == SumUpFrom(tuples, loc, 1, 0)

\* 2 * 16384 * S * (1/2 + 1/2 * Sum)
Bnd(tuples, loc, S) == S * F14 + S * SumUp(tuples, loc)

\* interval [lo,hi]/S within  [mlo,mhi]/S +- bound   (bnd = Bnd(..); nt = number of tuples: coarse guard, no overflow)
CoordOKS(lo, hi, mlo, mhi, S, bnd, nt) ==
    /\ lo - mhi <= S * (nt + 1)
    /\ mlo - hi <= S * (nt + 1)
    /\ 2 * F14 * (lo - mhi) <= bnd
    /\ 2 * F14 * (mlo - hi) <= bnd
\* ... within the integer m +- bound
CoordOK(lo, hi, m, S, bnd, nt) == CoordOKS(lo, hi, m * S, m * S, S, bnd, nt)
Exact(lo, hi, m, S) == lo = m * S /\ hi = m * S

\* interval within m +- k/2 units  (k = 0: exact, 1: half a unit, 2: one unit)
WithinHalves(iv, m, k, S) == /\ 2 * (iv[1] - m * S) <= k * S
                             /\ 2 * (m * S - iv[2]) <= k * S
\* two intervals within one unit of each other
Near1(a, b, S) == a[1] - b[2] <= S /\ b[1] - a[2] <= S

\* ---- drawn commands -> contours of points <<xlo, xhi, ylo, yhi, on>>
\* op 0 move, 1 line, 2 quad, 3 close, 4 cubic.  The evaluator (skrifa, HarfBuzz path style) ends a contour
\* whose last segment is a curve with the start point again: that repeated point is dropped.
SamePos(p, q) == p[1] = q[1] /\ p[2] = q[2] /\ p[3] = q[3] /\ p[4] = q[4]
DropClosing(cur, lastop) ==
    IF lastop \in {2, 4} /\ Len(cur) >= 2 /\ cur[Len(cur)][5] = 1 /\ SamePos(cur[Len(cur)], cur[1])
    THEN SubSeq(cur, 1, Len(cur) - 1) ELSE cur
Flush(acc, cur, lastop) == IF cur = <<>> THEN acc ELSE Append(acc, DropClosing(cur, lastop))

RECURSIVE ContoursFrom(_, _, _, _, _)
ContoursFrom(cmds, i, cur, lastop, acc) ==
    IF i > Len(cmds) THEN Flush(acc, cur, lastop)
    ELSE IF cmds[i][1] = 0
         THEN ContoursFrom(cmds, i + 1, << <<cmds[i][2], cmds[i][3], cmds[i][4], cmds[i][5], 1>> >>, 0,
                           Flush(acc, cur, lastop))
    ELSE IF cmds[i][1] = 1
         THEN ContoursFrom(cmds, i + 1, Append(cur, <<cmds[i][2], cmds[i][3], cmds[i][4], cmds[i][5], 1>>), 1, acc)
    ELSE IF cmds[i][1] = 2
         THEN ContoursFrom(cmds, i + 1, cur \o << <<cmds[i][2], cmds[i][3], cmds[i][4], cmds[i][5], 0>>,
                                                  <<cmds[i][6], cmds[i][7], cmds[i][8], cmds[i][9], 1>> >>, 2, acc)
    ELSE IF cmds[i][1] = 4
         THEN ContoursFrom(cmds, i + 1, cur \o << <<cmds[i][2], cmds[i][3], cmds[i][4], cmds[i][5], 0>>,
                                                  <<cmds[i][6], cmds[i][7], cmds[i][8], cmds[i][9], 0>>,
                                                  <<cmds[i][10], cmds[i][11], cmds[i][12], cmds[i][13], 1>> >>, 4, acc)
    ELSE ContoursFrom(cmds, i + 1, <<>>, 3, Flush(acc, cur, lastop))
Contours(cmds) == ContoursFrom(cmds, 1, <<>>, 3, <<>>)

\* same number of contours, same lengths, same on/off flags (both observed)
SameShapeO(A, B) == /\ Len(A) = Len(B)
                    /\ \A c \in 1..Len(A) : /\ Len(A[c]) = Len(B[c])
                                            /\ \A k \in 1..Len(A[c]) : A[c][k][5] = B[c][k][5]
PointIdx(O) == UNION {{<<c, k>> : k \in 1..Len(O[c])} : c \in 1..Len(O)}
MinPair(Sx) == CHOOSE x \in Sx : \A y \in Sx : x[1] < y[1] \/ (x[1] = y[1] /\ x[2] <= y[2])

\* ---- contour conventions: the expected contour is given in the order the compiler is known to emit it
\* (same start point, reversed direction).  Other (direction, rotation) pairs describe the same closed
\* contour; if the font uses one of them consistently it is reported as drift, not as a violation.
\* cand = <<d, r>>: d = 0 same direction, 1 opposite; r = rotation
CandAt(e, cand, k) ==
    IF cand[1] = 0 THEN e[((k - 1 + cand[2]) % Len(e)) + 1] ELSE e[((cand[2] + Len(e) - (k - 1)) % Len(e)) + 1]
PointExact(p, o, S) == p[3] = o[5] /\ Exact(o[1], o[2], p[1], S) /\ Exact(o[3], o[4], p[2], S)
MatchExactC(e, o, cand, S) ==
    /\ Len(e) = Len(o)
    /\ \A k \in 1..Len(e) : PointExact(CandAt(e, cand, k), o[k], S)
Cands(n) == {<<d, r>> : d \in {0, 1}, r \in 0..(n - 1)}
PickCand(ok) == IF ok = {} THEN <<2, 0>> ELSE CHOOSE c \in ok : TRUE
\* alignment of one contour at the default location: <<0,0>> preferred; <<2,0>> = none fits
AlignC(e, o, S) ==
    IF MatchExactC(e, o, <<0, 0>>, S) THEN <<0, 0>>
    ELSE IF Len(e) # Len(o) \/ Len(e) = 0 THEN <<2, 0>>
    ELSE PickCand({c \in Cands(Len(e)) : MatchExactC(e, o, c, S)})

Draw(g, l) == IF \E k \in 1..Len(g.draws) : g.draws[k].l = l
              THEN g.draws[CHOOSE k \in 1..Len(g.draws) : g.draws[k].l = l].cmds ELSE <<>>
HasDraw(g, l) == \E k \in 1..Len(g.draws) : g.draws[k].l = l

Fail(g, l, what, detail) == [g |-> g.name, l |-> l, k |-> what, d |-> detail]

\* ---- simple glyph whose source points are the oracle (line / quadratic sources)
\* g.at[j] = [l, def, pts (expected drawn contours of <<x, y, on>>)], g.draws, g.tuples
DefaultAt(g) == CHOOSE j \in 1..Len(g.at) : g.at[j].def = 1

PointCoordOK(p, q, S, bnd, nt) == CoordOK(q[1], q[2], p[1], S, bnd, nt) /\ CoordOK(q[3], q[4], p[2], S, bnd, nt)
PointReport(g, l, E, O, al, bad, bnd) ==
    IF bad = {} THEN {}
    ELSE {Fail(g, l, "coord", [contour |-> MinPair(bad)[1], point |-> MinPair(bad)[2], n |-> Cardinality(bad),
                               exp |-> CandAt(E[MinPair(bad)[1]], al[MinPair(bad)[1]], MinPair(bad)[2]),
                               obs |-> O[MinPair(bad)[1]][MinPair(bad)[2]], bnd |-> bnd])}
PointAt2(g, l, E, O, al, S, bnd, nt) ==
    IF ~(/\ Len(E) = Len(O)
         /\ (\A c \in 1..Len(E) : Len(E[c]) = Len(O[c]))
         /\ (\A c \in 1..Len(E) : \A k \in 1..Len(E[c]) : CandAt(E[c], al[c], k)[3] = O[c][k][5]))
    THEN {Fail(g, l, "structure", [exp |-> E, obs |-> O])}
    ELSE PointReport(g, l, E, O, al,
                     {x \in PointIdx(O) : ~PointCoordOK(CandAt(E[x[1]], al[x[1]], x[2]), O[x[1]][x[2]], S, bnd, nt)}, bnd)
PointAt(rec, g, a, al, S, nt) ==
    PointAt2(g, a.l, a.pts, Contours(Draw(g, a.l)), al, S, Bnd(g.tuples, rec.locs[a.l], S), nt)
PointFails4(rec, g, jd, Ed, Od, al, S, nt) ==
    IF \E c \in 1..Len(Ed) : al[c][1] = 2
    THEN {Fail(g, g.at[jd].l, "default-outline", [exp |-> Ed, obs |-> Od])}
    ELSE (IF \E c \in 1..Len(Ed) : al[c] # <<0, 0>>
          THEN {Fail(g, g.at[jd].l, "drift-contour-convention", al)} ELSE {})
         \cup UNION {PointAt(rec, g, g.at[j], al, S, nt) : j \in (1..Len(g.at)) \ {jd}}
PointFails3(rec, g, jd, Ed, Od, S, nt) ==
    IF Len(Ed) # Len(Od) THEN {Fail(g, g.at[jd].l, "default-outline", [exp |-> Ed, obs |-> Od])}
    ELSE PointFails4(rec, g, jd, Ed, Od, Force([c \in 1..Len(Ed) |-> AlignC(Ed[c], Od[c], S)]), S, nt)
PointFails2(rec, g, jd) ==
    PointFails3(rec, g, jd, g.at[jd].pts, Contours(Draw(g, g.at[jd].l)), rec.scale, Len(g.tuples))
PointFails(rec, g) == PointFails2(rec, g, DefaultAt(g))

\* ---- simple glyph whose oracle is the drawing of a static build (cubic sources, repository fixtures)
\* g.at[j] = [l, def, oracle (cmds of the static build), on (expected on-curve points of the source, drawn
\* order, may be <<>>)].  Same structure: point by point.  Different structure (the joint cubic-to-quadratic
\* conversion of all masters needed more segments than the master alone): the property's point-by-point
\* statement cannot be evaluated; the source's on-curve points must still appear, in order, within the bound.
RECURSIVE SubseqFrom(_, _, _, _, _, _, _)
SubseqFrom(e, o, i, k, S, bnd, nt) ==      \* greedy: e[i..] is matched by a subsequence of the on-curve points of o[k..]
    IF i > Len(e) THEN TRUE
    ELSE IF k > Len(o) THEN FALSE
    ELSE IF o[k][5] = 1 /\ PointCoordOK(e[i], o[k], S, bnd, nt)
         THEN SubseqFrom(e, o, i + 1, k + 1, S, bnd, nt)
         ELSE SubseqFrom(e, o, i, k + 1, S, bnd, nt)
\* static build value p (an interval too: implied on-curve points are half-integers) against observed q
OraclePointOK(p, q, def, S, bnd, nt) ==
    IF def = 1 THEN SamePos(p, q)
    ELSE /\ CoordOKS(q[1], q[2], p[1], p[2], S, bnd, nt)
         /\ CoordOKS(q[3], q[4], p[3], p[4], S, bnd, nt)
\* one contour of the static build against the observed one: equal up to the start point (a static build drops
\* implied on-curve points that the variable build must keep, which moves the start point of the drawn path)
ContourRotOK(Rc, Oc, def, S, bnd, nt) ==
    /\ Len(Rc) = Len(Oc)
    /\ \E r \in 0..(Len(Rc) - 1) : \A k \in 1..Len(Rc) :
          /\ Rc[((k - 1 + r) % Len(Rc)) + 1][5] = Oc[k][5]
          /\ OraclePointOK(Rc[((k - 1 + r) % Len(Rc)) + 1], Oc[k], def, S, bnd, nt)
OracleReport(g, a, R, O, bad, bnd) ==
    IF bad = {} THEN {}
    ELSE {Fail(g, a.l, IF a.def = 1 THEN "default-outline" ELSE "coord",
               [contour |-> CHOOSE c \in bad : \A c2 \in bad : c <= c2, n |-> Cardinality(bad),
                exp |-> R[CHOOSE c \in bad : \A c2 \in bad : c <= c2],
                obs |-> O[CHOOSE c \in bad : \A c2 \in bad : c <= c2], bnd |-> bnd])}
\* ---- different structure: compare the curves themselves.  Both the static build and the variable font approximate
\* each cubic segment of the master by a quadratic spline within the conversion tolerance tol (1/1000 em), piece i of n
\* covering the parameter range [i/n, (i+1)/n]; hence at equal parameters the two splines are within 2*tol of each
\* other, plus 1/2 for the rounding of the static build's points, plus the bound of the property for the variable
\* font.  Sampled at 1/4, 1/2, 3/4 of every curve segment.  e = expected on-curve points (drawn order), sg = kinds.
\* parse: sequence of <<kind, index of the start point in o2, number of pieces>>; <<>> = does not parse
RECURSIVE CurvePieces(_, _, _, _, _, _, _)
CurvePieces(o2, k, m, e, S, bnd, nt) ==       \* smallest m with o2[k + 2m] an on-curve point within the bound of e; 0 = none
    IF k + 2 * m > Len(o2) THEN 0
    ELSE IF o2[k + 2 * m - 1][5] # 0 \/ o2[k + 2 * m][5] # 1 THEN 0
    ELSE IF PointCoordOK(e, o2[k + 2 * m], S, bnd, nt) THEN m
    ELSE CurvePieces(o2, k, m + 1, e, S, bnd, nt)
RECURSIVE ParseSegs(_, _, _, _, _, _, _, _, _)
RECURSIVE ParseCurve(_, _, _, _, _, _, _, _, _, _)
ParseSegs(o2, e2, sg, j, k, S, bnd, nt, acc) ==
    IF j > Len(sg) THEN (IF k = Len(o2) THEN acc ELSE <<>>)
    ELSE IF sg[j] = 1
         THEN (IF k + 1 <= Len(o2) /\ o2[k + 1][5] = 1 /\ PointCoordOK(e2[j + 1], o2[k + 1], S, bnd, nt)
               THEN ParseSegs(o2, e2, sg, j + 1, k + 1, S, bnd, nt, Append(acc, <<1, k, 1>>)) ELSE <<>>)
    ELSE ParseCurve(o2, e2, sg, j, k, S, bnd, nt, acc, CurvePieces(o2, k, 1, e2[j + 1], S, bnd, nt))
ParseCurve(o2, e2, sg, j, k, S, bnd, nt, acc, m) ==
    IF m = 0 THEN <<>> ELSE ParseSegs(o2, e2, sg, j + 1, k + 2 * m, S, bnd, nt, Append(acc, <<3, k, m>>))
\* 16 * point of piece ((j*n) div 4) at local parameter ((j*n) mod 4)/4: <<xlo, xhi, ylo, yhi>>
QuadAt(A, B, C, q) ==
    << (4 - q) * (4 - q) * A[1] + 2 * q * (4 - q) * B[1] + q * q * C[1],
       (4 - q) * (4 - q) * A[2] + 2 * q * (4 - q) * B[2] + q * q * C[2],
       (4 - q) * (4 - q) * A[3] + 2 * q * (4 - q) * B[3] + q * q * C[3],
       (4 - q) * (4 - q) * A[4] + 2 * q * (4 - q) * B[4] + q * q * C[4] >>
SampleAt(o2, k, n, j) == QuadAt(o2[k + 2 * ((j * n) \div 4)], o2[k + 2 * ((j * n) \div 4) + 1],
                                o2[k + 2 * ((j * n) \div 4) + 2], (j * n) % 4)
\* allowed = bnd + 2*16384*(2*tol*S + S/2), tolS = tol * S
GeoNear(p, r, S, bnd, tolS, nt) ==
    /\ (p[1] - r[2]) \div 16 <= S * (nt + 4) /\ (r[1] - p[2]) \div 16 <= S * (nt + 4)
    /\ (p[3] - r[4]) \div 16 <= S * (nt + 4) /\ (r[3] - p[4]) \div 16 <= S * (nt + 4)
    /\ 2 * F14 * ((p[1] - r[2]) \div 16) <= bnd + F14 * (4 * tolS + S)
    /\ 2 * F14 * ((r[1] - p[2]) \div 16) <= bnd + F14 * (4 * tolS + S)
    /\ 2 * F14 * ((p[3] - r[4]) \div 16) <= bnd + F14 * (4 * tolS + S)
    /\ 2 * F14 * ((r[3] - p[4]) \div 16) <= bnd + F14 * (4 * tolS + S)
GeoContour3(g, a, c, o2, r2, po, pr, S, bnd, tolS, nt) ==
    IF po = <<>> \/ pr = <<>> \/ Len(po) # Len(pr)
    THEN {Fail(g, a.l, "structure", [contour |-> c, exp |-> a.on[c], segs |-> a.segs[c], obs |-> o2, static |-> r2])}
    ELSE UNION {IF po[i][1] = 1 THEN {}
                ELSE {Fail(g, a.l, IF a.def = 1 THEN "default-curve" ELSE "curve",
                           [contour |-> c, segment |-> i, at4 |-> j, font |-> SampleAt(o2, po[i][2], po[i][3], j),
                            static |-> SampleAt(r2, pr[i][2], pr[i][3], j), bnd |-> bnd])
                      : j \in {jj \in 1..3 : ~GeoNear(SampleAt(o2, po[i][2], po[i][3], jj),
                                                        SampleAt(r2, pr[i][2], pr[i][3], jj), S, bnd, tolS, nt)}}
                : i \in 1..Len(po)}
GeoContour2(g, a, c, o2, r2, e2, sg, S, bnd, tolS, nt) ==
    GeoContour3(g, a, c, o2, r2, ParseSegs(o2, e2, sg, 1, 1, S, bnd, nt, <<>>), ParseSegs(r2, e2, sg, 1, 1, S, bnd, nt, <<>>),
                S, bnd, tolS, nt)
GeoContour(g, a, c, Oc, Rc, S, bnd, tolS, nt) ==
    IF Len(Oc) = 0 \/ Len(Rc) = 0 \/ Len(a.on[c]) = 0 THEN {}
    ELSE GeoContour2(g, a, c, Append(Oc, Oc[1]), Append(Rc, Rc[1]), Append(a.on[c], a.on[c][1]), a.segs[c], S,
                     IF a.def = 1 THEN 0 ELSE bnd, tolS, nt)

OracleAt2(g, a, R, O, S, bnd, nt, tolS) ==
    IF Len(R) = Len(O) /\ \A c \in 1..Len(R) : Len(R[c]) = Len(O[c])
    THEN OracleReport(g, a, R, O, {c \in 1..Len(R) : Len(R[c]) > 0 /\ ~ContourRotOK(R[c], O[c], a.def, S, bnd, nt)}, bnd)
    ELSE {Fail(g, a.l, "note-structure-differs-from-static", [static |-> Len(R), font |-> Len(O)])}
         \cup (IF a.on = <<>> THEN {}
               ELSE IF Len(a.on) # Len(O) THEN {Fail(g, a.l, "structure", [exp |-> a.on, obs |-> O])}
               ELSE UNION {IF /\ Len(O[c]) > 0
                              /\ O[c][1][5] = 1
                              /\ SubseqFrom(a.on[c], O[c], 1, 1, S, IF a.def = 1 THEN 0 ELSE bnd, nt)
                           THEN (IF Len(R) = Len(O) THEN GeoContour(g, a, c, O[c], R[c], S, bnd, tolS, nt) ELSE {})
                           ELSE {Fail(g, a.l, IF a.def = 1 THEN "default-outline" ELSE "coord",
                                      [contour |-> c, exp |-> a.on[c], obs |-> O[c], bnd |-> bnd])}
                           : c \in 1..Len(a.on)})
OracleAt(rec, g, a) ==
    OracleAt2(g, a, Contours(a.oracle), Contours(Draw(g, a.l)), rec.scale,
              Bnd(g.tuples, rec.locs[a.l], rec.scale), Len(g.tuples), rec.tol)
OracleFails(rec, g) == UNION {OracleAt(rec, g, g.at[j]) : j \in 1..Len(g.at)}

\* ---- composite glyph: g.comps[i] = [base (index into rec.glyphs), raw (<<dx, dy>> in glyf)],
\* g.at[j] = [l, def, offs (expected rounded offsets <<dx, dy>>), oobs (offsets evaluated from raw gvar:
\* <<dxlo, dxhi, dylo, dyhi>>)]
TagContours(i, B) == [c \in 1..Len(B) |-> <<i, B[c]>>]
RECURSIVE BaseContours(_, _, _, _, _)
BaseContours(rec, g, l, i, acc) ==          \* contours of the bases at l, in component order, tagged with i
    IF i > Len(g.comps) THEN acc
    ELSE BaseContours(rec, g, l, i + 1, acc \o TagContours(i, Contours(Draw(rec.glyphs[g.comps[i].base], l))))
OffsetOK(e, o, raw, def, S, bnd, nt) ==
    IF def = 1 THEN Exact(o[1], o[2], e[1], S) /\ Exact(o[3], o[4], e[2], S) /\ raw = e
    ELSE CoordOK(o[1], o[2], e[1], S, bnd, nt) /\ CoordOK(o[3], o[4], e[2], S, bnd, nt)
\* composite point q, base point b, expected offset e: the difference interval against e
CompPointOK(q, b, e, def, S, bnd, nt) ==
    IF def = 1 THEN Exact(q[1] - b[2], q[2] - b[1], e[1], S) /\ Exact(q[3] - b[4], q[4] - b[3], e[2], S)
    ELSE CoordOK(q[1] - b[2], q[2] - b[1], e[1], S, bnd, nt) /\ CoordOK(q[3] - b[4], q[4] - b[3], e[2], S, bnd, nt)
CompReport(g, a, O, B, bad, bnd) ==
    IF bad = {} THEN {}
    ELSE {Fail(g, a.l, IF a.def = 1 THEN "default-outline" ELSE "coord",
               [contour |-> MinPair(bad)[1], point |-> MinPair(bad)[2], n |-> Cardinality(bad),
                obs |-> O[MinPair(bad)[1]][MinPair(bad)[2]], base |-> B[MinPair(bad)[1]][2][MinPair(bad)[2]],
                off |-> a.offs[B[MinPair(bad)[1]][1]], bnd |-> bnd])}
CompAt2(rec, g, a, O, B, S, bnd, nt) ==
    (IF \A i \in 1..Len(g.comps) : OffsetOK(a.offs[i], a.oobs[i], g.comps[i].raw, a.def, S, bnd, nt) THEN {}
     ELSE {Fail(g, a.l, IF a.def = 1 THEN "default-offset" ELSE "offset",
                [exp |-> a.offs, obs |-> a.oobs, raw |-> [i \in 1..Len(g.comps) |-> g.comps[i].raw], bnd |-> bnd])})
    \cup
    (IF \E i \in 1..Len(g.comps) : ~HasDraw(rec.glyphs[g.comps[i].base], a.l) THEN {}
     ELSE IF ~(/\ Len(O) = Len(B)
               /\ (\A c \in 1..Len(O) : Len(O[c]) = Len(B[c][2]))
               /\ (\A c \in 1..Len(O) : \A k \in 1..Len(O[c]) : O[c][k][5] = B[c][2][k][5]))
     THEN {Fail(g, a.l, "structure", [exp |-> B, obs |-> O])}
     ELSE CompReport(g, a, O, B,
                     {x \in PointIdx(O) : ~CompPointOK(O[x[1]][x[2]], B[x[1]][2][x[2]], a.offs[B[x[1]][1]],
                                                       a.def, S, bnd, nt)}, bnd))
CompAt(rec, g, a) ==
    CompAt2(rec, g, a, Contours(Draw(g, a.l)), BaseContours(rec, g, a.l, 1, <<>>), rec.scale,
            Bnd(g.tuples, rec.locs[a.l], rec.scale), Len(g.tuples))
CompFails(rec, g) == UNION {CompAt(rec, g, g.at[j]) : j \in 1..Len(g.at)}

\* C03: all failures of one font record.  kinds: "line", "quad" (source points are the oracle),
\* "cubic", "static" (oracle drawing), "comp", anything else: nothing to check
GlyphOutlineFails(rec, g) ==
    IF g.kind \in {"line", "quad"} THEN PointFails(rec, g)
    ELSE IF g.kind \in {"cubic", "static"} THEN OracleFails(rec, g)
    ELSE IF g.kind = "comp" THEN CompFails(rec, g)
    ELSE {}
\* internal observable: every gvar tuple of the glyph is one of the regions the variation model predicts for the
\* glyph's own set of source locations (g.pred, from Part 3; <<>> = no prediction).  Drift, never a violation.
RegionDrift(g) ==
    IF g.pred = <<>> \/ \A i \in 1..Len(g.tuples) : \E j \in 1..Len(g.pred) : g.tuples[i] = g.pred[j] THEN {}
    ELSE {Fail(g, 0, "drift-region", [font |-> g.tuples, spec |-> g.pred])}
OutlineFails(rec) == UNION {GlyphOutlineFails(rec, rec.glyphs[i]) \cup RegionDrift(rec.glyphs[i]) : i \in 1..Len(rec.glyphs)}

\* ---- C04
\* g.at[j] = [l, def, w (rounded master advance), h (rounded master advance height or -1),
\*            hadv, hsk, gadv (intervals; may be <<>>), vadv, gvadv (intervals or <<>>)], g.hmtx, g.vmtx (or -1)
AdvKinds(g, a, S) ==
    (IF a.hadv = <<>>
     THEN (IF a.gadv = <<>> \/ WithinHalves(a.gadv, a.w, 2, S) THEN {} ELSE {"advance-width"})
     ELSE (IF WithinHalves(a.hadv, a.w, 2, S) THEN {} ELSE {"advance-width"})
          \cup (IF a.gadv # <<>> /\ ~Near1(a.hadv, a.gadv, S) THEN {"advance-width-vs-phantom"} ELSE {}))
    \cup (IF a.hsk # <<>> /\ ~WithinHalves(a.hsk, a.w, 2, S) THEN {"advance-width-skrifa"} ELSE {})
    \cup (IF a.def = 1 /\ g.hmtx # a.w THEN {"default-hmtx"} ELSE {})
    \cup (IF a.h < 0 THEN {}
          ELSE IF a.vadv = <<>>
          THEN (IF a.gvadv = <<>> \/ WithinHalves(a.gvadv, a.h, 2, S) THEN {} ELSE {"advance-height"})
          ELSE (IF WithinHalves(a.vadv, a.h, 2, S) THEN {} ELSE {"advance-height"})
               \cup (IF a.gvadv # <<>> /\ ~Near1(a.vadv, a.gvadv, S) THEN {"advance-height-vs-phantom"} ELSE {})
               \cup (IF a.def = 1 /\ g.vmtx # a.h THEN {"default-vmtx"} ELSE {}))
AdvAt(g, a, S) ==
    {Fail(g, a.l, k, [w |-> a.w, h |-> a.h, hadv |-> a.hadv, hsk |-> a.hsk, gadv |-> a.gadv,
                      vadv |-> a.vadv, gvadv |-> a.gvadv, hmtx |-> g.hmtx, vmtx |-> g.vmtx]) : k \in AdvKinds(g, a, S)}
AdvanceFails(rec) ==
    UNION {UNION {AdvAt(rec.glyphs[i], rec.glyphs[i].at[j], rec.scale) : j \in 1..Len(rec.glyphs[i].at)}
           : i \in 1..Len(rec.glyphs)}

\* rec.metrics[j] = [l, def, exact, vals: seq of [t, m, own (interval), sk (interval or <<>>)]]
\* rec.defaults = seq of [t, m, raw]
MetricKinds(a, v, S) ==
    (IF a.def = 1
     THEN (IF Exact(v.own[1], v.own[2], v.m, S) THEN {} ELSE {"default-metric"})
     ELSE (IF WithinHalves(v.own, v.m, IF a.exact = 1 THEN 1 ELSE 2, S) THEN {} ELSE {"metric"}))
    \* (skrifa rounds the MVAR delta to an integer: a value within 1/2 of m may come out one unit away)
    \cup (IF v.sk # <<>> /\ ~WithinHalves(v.sk, v.m, IF a.def = 1 THEN 0 ELSE 2, S)
          THEN {"metric-skrifa"} ELSE {})
MetricAt(a, S) ==
    UNION {{[g |-> "", l |-> a.l, k |-> f, d |-> a.vals[k]] : f \in MetricKinds(a, a.vals[k], S)} : k \in 1..Len(a.vals)}
MetricFailRecs(rec) == UNION {MetricAt(rec.metrics[j], rec.scale) : j \in 1..Len(rec.metrics)}
DefaultFails(rec) ==
    {[g |-> "", l |-> 0, k |-> "default-table-value", d |-> rec.defaults[k]]
     : k \in {k2 \in 1..Len(rec.defaults) : rec.defaults[k2].raw # rec.defaults[k2].m}}
\* internal observable: glyphs with different sets of source locations need several variation models, and then the
\* compiler can only build the indirect (DeltaSetIndexMap) store.  rec.nmodels, rec.indirect (0/1, -1 = no HVAR)
StoreDrift(rec) ==
    IF rec.nmodels > 1 /\ rec.indirect = 0
    THEN {[g |-> "", l |-> 0, k |-> "drift-hvar-direct-with-several-models", d |-> rec.nmodels]} ELSE {}
MetricsAllFails(rec) == AdvanceFails(rec) \cup MetricFailRecs(rec) \cup DefaultFails(rec) \cup StoreDrift(rec)

---------------------------------------------------------------------------
(* Part 2: generator *)

EnvInt(name, dflt) == IF name \in DOMAIN IOEnv THEN atoi(IOEnv[name]) ELSE dflt
EnvStr(name, dflt) == IF name \in DOMAIN IOEnv THEN IOEnv[name] ELSE dflt
\* all parameters, read from the environment (IOEnv is expensive and never cached: read once per use site)
\*  mode   "C03": outline cases; "C04": advance / metric cases
\*  kmin..kmax  number of non-default masters;  nvar  variants (sparse patterns, values, flags) per layout
\*  of the layouts with k non-default masters keep those with (Hash + offset) % stride[k+1] = 0
\*  design = 1: evaluate the design-level check (Part 3);  groups: fan-out of the state graph (parallelism)
Params == [mode |-> EnvStr("IN_MODE", "C03"), seed |-> EnvInt("IN_SEED", 1),
           kmin |-> EnvInt("IN_KMIN", 1), kmax |-> EnvInt("IN_KMAX", 4), nvar |-> EnvInt("IN_NVAR", 1),
           offset |-> EnvInt("IN_OFFSET", 0), design |-> EnvInt("IN_DESIGN", 1), groups |-> EnvInt("IN_GROUPS", 8),
           stride |-> [k \in 1..5 |-> EnvInt("IN_STRIDE" \o ToString(k - 1), EnvInt("IN_STRIDE", 1))] \o <<>>]

Axes == 1..NAxes
\* coordinates in halves: -2..2 = -1, -1/2, 0, 1/2, 1 (three axes: -1, 0, 1 only)
GridVals == IF NAxes <= 2 THEN -2..2 ELSE {-2, 0, 2}
Origin == [a \in Axes |-> 0]
LexLess(p, q) == \E a \in Axes : p[a] < q[a] /\ \A b \in 1..(a - 1) : p[b] = q[b]
\* the non-default grid points in lexicographic order (re-evaluated by TLC at every reference: passed on as `gp`)
PtSeq == SetToSortSeq([Axes -> GridVals] \ {Origin}, LexLess)
NPts == IF NAxes = 1 THEN 4 ELSE IF NAxes = 2 THEN 24 ELSE 26

HStep(acc, g) == (acc * 31 + ((g * 48271) % 65537)) % 1000003
RECURSIVE HashFrom(_, _, _)
HashFrom(Sx, g, acc) == IF g > NPts THEN acc ELSE HashFrom(Sx, g + 1, IF g \in Sx THEN HStep(acc, g) ELSE acc)
Hash(Sx) == HashFrom(Sx, 1, 17)

LayoutsP(P) == UNION {{Sx \in kSubset(k, 1..NPts) : (Hash(Sx) + P.offset) % P.stride[k + 1] = 0} : k \in P.kmin..P.kmax}
\* the cases of group i: <<"case", S, v>>
GroupCases(P, i) == {<<"case", Sx, v>> : Sx \in {Sy \in LayoutsP(P) : Hash(Sy) % P.groups = i}, v \in 0..(P.nvar - 1)}

\* small deterministic mixing function (all intermediate values < 2^31); result in 0..65536
Mix(x, y) == ((((x % 65521) * 131 + (y % 65521) * 31 + 7) % 65521) * 2311 + 13) % 65537
Mix3(h, a, b) == Mix(Mix(h, a), b)

\* ---- shapes: contours of <<x, y, typ>>, typ 0 off-curve, 1 line, 2 qcurve, 3 curve (UFO point order)
ShapeLine == << << <<60, 0, 1>>, <<260, 0, 1>>, <<460, 0, 1>>, <<460, 350, 1>>, <<460, 700, 1>>, <<60, 700, 1>> >>,
                << <<160, 100, 1>>, <<360, 100, 1>>, <<260, 500, 1>> >> >>
\* (the third on-curve point is the exact midpoint of its neighbours: an implied point where the masters agree)
ShapeQuad == << << <<240, 0, 2>>, <<450, 0, 0>>, <<450, 340, 2>>, <<450, 700, 0>>,
                   <<250, 700, 2>>, <<50, 700, 0>>, <<50, 360, 2>>, <<50, 0, 0>> >> >>
ShapeCubic == << << <<100, 0, 1>>, <<300, 0, 1>>, <<410, 0, 0>>, <<500, 150, 0>>, <<500, 350, 3>>,
                    <<500, 550, 0>>, <<410, 700, 0>>, <<300, 700, 3>>, <<100, 700, 1>> >> >>

\* glyph table: [name, kind, shape, comps (<<base glyph index, dx, dy>>), adv]
GlyphsC03 == <<
    [name |-> "gl", kind |-> "line", shape |-> ShapeLine, comps |-> <<>>, adv |-> 520],
    [name |-> "gq", kind |-> "quad", shape |-> ShapeQuad, comps |-> <<>>, adv |-> 500],
    [name |-> "gc", kind |-> "cubic", shape |-> ShapeCubic, comps |-> <<>>, adv |-> 560],
    [name |-> "gk", kind |-> "comp", shape |-> <<>>, comps |-> << <<1, 30, 40>>, <<2, 520, -10>> >>, adv |-> 1040],
    [name |-> "gn", kind |-> "comp", shape |-> <<>>, comps |-> << <<4, 15, 25>> >>, adv |-> 1060] >>
NFillMax == 40
Filler(i) == [name |-> "f" \o ToString(i), kind |-> "empty", shape |-> <<>>, comps |-> <<>>, adv |-> 300 + 7 * i]
ShapeNotdef == << << <<50, 0, 1>>, <<450, 0, 1>>, <<450, 700, 1>>, <<50, 700, 1>> >> >>
\* notdef: "absent" (the compiler synthesises one), "all" (a source glyph in every master), "default" (a source
\* glyph in the default master only: the single-location case that metric_variations.rs densifies)
GlyphsC04(nfill, notdef) == <<
    [name |-> "gl", kind |-> "line", shape |-> ShapeLine, comps |-> <<>>, adv |-> 520],
    [name |-> "gk", kind |-> "comp", shape |-> <<>>, comps |-> << <<1, 30, 40>> >>, adv |-> 540] >>
    \o [i \in 1..nfill |-> Filler(i)]
    \o (IF notdef = "absent" THEN <<>>
        ELSE << [name |-> ".notdef", kind |-> "line", shape |-> ShapeNotdef, comps |-> <<>>, adv |-> 600] >>)

\* MVAR-tagged global metrics: <<tag, fontinfo key, base value, may be fractional, vertical only>>
MetricTable == <<
    <<"hasc", "openTypeOS2TypoAscender", 790, 0, 0>>,
    <<"hdsc", "openTypeOS2TypoDescender", -210, 0, 0>>,
    <<"hlgp", "openTypeOS2TypoLineGap", 90, 0, 0>>,
    <<"hcla", "openTypeOS2WinAscent", 950, 0, 0>>,
    <<"hcld", "openTypeOS2WinDescent", 260, 0, 0>>,
    <<"xhgt", "xHeight", 480, 1, 0>>,
    <<"cpht", "capHeight", 690, 1, 0>>,
    <<"sbxs", "openTypeOS2SubscriptXSize", 640, 0, 0>>,
    <<"sbys", "openTypeOS2SubscriptYSize", 590, 0, 0>>,
    <<"sbxo", "openTypeOS2SubscriptXOffset", 12, 0, 0>>,
    <<"sbyo", "openTypeOS2SubscriptYOffset", 70, 0, 0>>,
    <<"spxs", "openTypeOS2SuperscriptXSize", 630, 0, 0>>,
    <<"spys", "openTypeOS2SuperscriptYSize", 580, 0, 0>>,
    <<"spxo", "openTypeOS2SuperscriptXOffset", 14, 0, 0>>,
    <<"spyo", "openTypeOS2SuperscriptYOffset", 340, 0, 0>>,
    <<"strs", "openTypeOS2StrikeoutSize", 48, 0, 0>>,
    <<"stro", "openTypeOS2StrikeoutPosition", 290, 0, 0>>,
    <<"hcrs", "openTypeHheaCaretSlopeRise", 1000, 0, 0>>,
    <<"hcrn", "openTypeHheaCaretSlopeRun", 120, 0, 0>>,
    <<"hcof", "openTypeHheaCaretOffset", 20, 0, 0>>,
    <<"unds", "postscriptUnderlineThickness", 52, 1, 0>>,
    <<"undo", "postscriptUnderlinePosition", -95, 1, 0>>,
    <<"vasc", "openTypeVheaVertTypoAscender", 510, 0, 1>>,
    <<"vdsc", "openTypeVheaVertTypoDescender", -490, 0, 1>>,
    <<"vlgp", "openTypeVheaVertTypoLineGap", 30, 0, 1>>,
    <<"vcrs", "openTypeVheaCaretSlopeRise", 10, 0, 1>>,
    <<"vcrn", "openTypeVheaCaretSlopeRun", 1000, 0, 1>>,
    <<"vcof", "openTypeVheaCaretOffset", 8, 0, 1>> >>
NMetrics == 28
\* not MVAR-tagged, default value must be exact in hhea: <<name in defaults, fontinfo key, base>>
HheaTable == << <<"hhea.ascender", "openTypeHheaAscender", 910>>, <<"hhea.descender", "openTypeHheaDescender", -230>>,
                <<"hhea.lineGap", "openTypeHheaLineGap", 40>> >>

Rnd2(v2) == (v2 + 1) \div 2               \* OtRound of v2/2: floor(x + 1/2)

\* value (times two) of a quantity with the given key at grid point P (pi = its index, 0 = default):
\* base + a part linear in P with per-axis slopes w/2 (w odd or even: odd full-axis deltas give .5 ties at
\* half-way masters) + jitter in -J..J, + 1/2 now and then when halfOK
Slope(r0, a) == ((r0 \div <<1, 41, 1681>>[a]) % 41) - 20
Lin(r0, P) == ((P[1] * Slope(r0, 1)) \div 2)
              + (IF NAxes >= 2 THEN (P[2] * Slope(r0, 2)) \div 2 ELSE 0)
              + (IF NAxes >= 3 THEN (P[3] * Slope(r0, 3)) \div 2 ELSE 0)
ValB(r0, r1, base, P, J, halfOK) ==
    2 * (base + Lin(r0, P) + (IF J = 0 THEN 0 ELSE (r1 % (2 * J + 1)) - J))
    + (IF halfOK /\ (r1 \div 64) % 4 = 0 THEN 1 ELSE 0)
ValA(r0, base, P, pi, J, halfOK) ==
    IF pi = 0 THEN 2 * base + (IF halfOK /\ r0 % 8 = 0 THEN 1 ELSE 0)
    ELSE ValB(r0, Mix(r0, pi), base, P, J, halfOK)
Val2(h, key, base, P, pi, J, halfOK) == ValA(Mix(h, key), base, P, pi, J, halfOK)
\* "smooth" variant for outline points: the per-axis slope is an affine function of the base coordinate shared by
\* all points of the glyph (rs), so neighbouring points move alike and IUP can leave deltas out; jitter on top
LinS(rs, base, P) ==
    ((P[1] * (((Slope(rs, 1) * base) \div 128) + Slope(rs \div 7, 1))) \div 2)
    + (IF NAxes >= 2 THEN (P[2] * (((Slope(rs, 2) * base) \div 128) + Slope(rs \div 7, 2))) \div 2 ELSE 0)
    + (IF NAxes >= 3 THEN (P[3] * (((Slope(rs, 3) * base) \div 128) + Slope(rs \div 7, 3))) \div 2 ELSE 0)
ValSB(rs, r1, base, P, J, halfOK) ==
    2 * (base + LinS(rs, base, P) + (IF J = 0 THEN 0 ELSE (r1 % (2 * J + 1)) - J))
    + (IF halfOK /\ (r1 \div 64) % 4 = 0 THEN 1 ELSE 0)
ValS(rs, r0, base, P, pi, J, halfOK) ==
    IF pi = 0 THEN 2 * base + (IF halfOK /\ r0 % 8 = 0 THEN 1 ELSE 0)
    ELSE ValSB(rs, Mix(r0, pi), base, P, J, halfOK)
\* per-point movement pattern of glyph gi (mode = Mix % 4): 0 every point moves, 1 each point independently stays
\* put (same coordinates in every source) with probability 1/2, 2 exactly one point moves, 3 exactly one point stays.
\* pn = running number of the point in the glyph, npts = number of points.  (Patterns such as "the start of a curve
\* moves while its handles and end stay" and "handles stay, end moves" arise from 1 and 2.)
Stays(X, gi, pn, npts) ==
    LET mode == Mix(X.h, gi * 17 + 6) % 4 IN
    IF mode = 0 THEN FALSE
    ELSE IF mode = 1 THEN Mix3(X.h, gi * 17 + 7, pn) % 2 = 0
    ELSE IF mode = 2 THEN pn # (Mix(X.h, gi * 17 + 8) % npts) + 1
    ELSE pn = (Mix(X.h, gi * 17 + 8) % npts) + 1
\* point coordinate xy (0 = x, 1 = y) of glyph gi
PtVal(X, gi, key, xy, base, src, halfOK) ==
    IF X.smooth THEN ValS(Mix(X.h, gi * 1000 + 800 + xy), Mix(X.h, key), base, src.p, src.pi, X.J, halfOK)
    ELSE Val2(X.h, key, base, src.p, src.pi, X.J, halfOK)

\* case-level context: [h, gp (= PtSeq), midx (point indices of the masters, 0 = default), J, halfOK, vert,
\*                      c4, fillSame]
\* sources of glyph gi: the default master, a subset of the other masters, optionally one glyph-specific
\* intermediate location (a grid point where the font has no master)
SrcOfMaster(X, i) == [p |-> IF X.midx[i] = 0 THEN Origin ELSE X.gp[X.midx[i]], m |-> i, pi |-> X.midx[i]]
ExtraSrc(X, gi, free) ==
    IF Mix(X.h, gi * 17 + 9) % 3 = 0 /\ Len(free) > 0
    THEN << [p |-> X.gp[free[(Mix(X.h, gi * 17 + 11) % Len(free)) + 1]], m |-> 0,
             pi |-> free[(Mix(X.h, gi * 17 + 11) % Len(free)) + 1]] >>
    ELSE <<>>
KeptSrcs(X, kept) == Force([k \in 1..Len(kept) |-> SrcOfMaster(X, kept[k])])
GlyphSrcs(X, gi, forceFull) ==
    IF forceFull THEN Force([i \in 1..Len(X.midx) |-> SrcOfMaster(X, i)])
    ELSE KeptSrcs(X, SelectSeq([i \in 1..Len(X.midx) |-> i],
                               LAMBDA i : i = 1 \/ Mix(X.h, gi * 17 + 3) % 2 = 1 \/ Mix3(X.h, gi * 17 + 5, i) % 3 # 0))
         \o ExtraSrc(X, gi, SelectSeq([g \in 1..NPts |-> g], LAMBDA g : \A i \in 1..Len(X.midx) : X.midx[i] # g))

\* expected drawn order of a source contour: same start point, opposite direction
Drawn(c) == <<c[1]>> \o Reverse(Tail(c))

ShapePoints(shape) == IF Len(shape) = 0 THEN 1 ELSE IF Len(shape) = 1 THEN Len(shape[1]) ELSE Len(shape[1]) + Len(shape[2])
PointNo(shape, c, k) == IF c = 1 THEN k ELSE Len(shape[1]) + k      \* shapes have one or two contours
\* rank of source s among the sources of the glyph in the order of the compiler's location keys (axis tags sorted
\* alphabetically: opsz, wdth, wght = axes 3, 2, 1)
RevLess(P, Q) == \E a \in Axes : P[a] < Q[a] /\ \A b \in (a + 1)..NAxes : P[b] = Q[b]
RankOf(srcs, s) == Cardinality({s2 \in 1..Len(srcs) : RevLess(srcs[s2].p, srcs[s].p)})
\* one source of glyph gi (table row t) at src (record p, m, pi); pat: 0 all advances equal, 1 one source
\* differs, 2 general, 3 by rank; odd: the index of the source that differs; rank: see RankOf
SrcRec(X, gi, t, src, s, pat, odd, rank) ==
    [p |-> src.p, m |-> src.m,
     c2 |-> Force([c \in 1..Len(t.shape) |-> Force([k \in 1..Len(t.shape[c]) |->
               IF Stays(X, gi, PointNo(t.shape, c, k), ShapePoints(t.shape))
               THEN <<ValA(Mix(X.h, gi * 1000 + c * 100 + k * 2), t.shape[c][k][1], src.p, 0, X.J,
                           X.halfOK /\ t.kind \in {"line", "quad"}),
                      ValA(Mix(X.h, gi * 1000 + c * 100 + k * 2 + 1), t.shape[c][k][2], src.p, 0, X.J,
                           X.halfOK /\ t.kind \in {"line", "quad"}),
                      t.shape[c][k][3]>>
               ELSE
               <<PtVal(X, gi, gi * 1000 + c * 100 + k * 2, 0, t.shape[c][k][1], src,
                       X.halfOK /\ t.kind \in {"line", "quad"}),
                 PtVal(X, gi, gi * 1000 + c * 100 + k * 2 + 1, 1, t.shape[c][k][2], src,
                       X.halfOK /\ t.kind \in {"line", "quad"}),
                 t.shape[c][k][3]>>])]),
     o2 |-> Force([i \in 1..Len(t.comps) |->
               <<Val2(X.h, gi * 1000 + 900 + i * 2, t.comps[i][2], src.p, src.pi, X.J, X.halfOK),
                 Val2(X.h, gi * 1000 + 901 + i * 2, t.comps[i][3], src.p, src.pi, X.J, X.halfOK)>>]),
     w2 |-> IF pat = 0 THEN 2 * (IF t.kind = "empty" /\ X.fillSame THEN 333 ELSE t.adv)
            ELSE IF pat = 1 THEN 2 * (IF t.kind = "empty" /\ X.fillSame THEN 333 ELSE t.adv)
                                 + (IF s = odd /\ s # 1 THEN 75 ELSE 0)
            \* 3: the advance depends only on the rank of the source in location order, so glyphs with different
            \* source sets of the same size have the same advance sequence
            ELSE IF pat = 3 THEN 2 * ((IF t.kind = "empty" /\ X.fillSame THEN 333 ELSE t.adv) + 37 * rank)
            ELSE Val2(X.h, IF t.kind = "empty" /\ X.fillSame THEN 990 ELSE gi * 1000 + 990,
                      IF t.kind = "empty" /\ X.fillSame THEN 333 ELSE t.adv, src.p, src.pi,
                      IF X.J = 0 THEN 3 ELSE X.J, X.halfOK),
     h2 |-> IF X.vert = 1
            THEN Val2(X.h, (IF t.kind = "empty" /\ X.fillSame THEN 990 ELSE gi * 1000 + 990) + 1, 1000 + 3 * gi,
                      src.p, src.pi, X.J, X.halfOK)
            ELSE -2]
RoundedPts(x) ==
    Force([c \in 1..Len(x.c2) |-> Drawn(Force([k \in 1..Len(x.c2[c]) |->
              <<Rnd2(x.c2[c][k][1]), Rnd2(x.c2[c][k][2]), IF x.c2[c][k][3] = 0 THEN 0 ELSE 1>>]))])
ExpRec2(t, x, pts, vert) ==
    [pts |-> IF t.kind \in {"line", "quad"} THEN pts ELSE <<>>,
     on |-> IF t.kind = "cubic" THEN Force([c \in 1..Len(pts) |-> SelectSeq(pts[c], LAMBDA q : q[3] = 1)]) ELSE <<>>,
     \* kind (1 line, 2 qcurve, 3 curve) of the drawn segment that STARTS at each on-curve point, drawn order
     \* (= the type of that point in the source, because the drawn direction is the opposite one)
     segs |-> IF t.kind = "cubic"
              THEN Force([c \in 1..Len(x.c2) |-> SelectSeq(Drawn(Force([k \in 1..Len(x.c2[c]) |-> x.c2[c][k][3]])),
                                                            LAMBDA ty : ty # 0)])
              ELSE <<>>,
     offs |-> Force([i \in 1..Len(x.o2) |-> <<Rnd2(x.o2[i][1]), Rnd2(x.o2[i][2])>>]),
     w |-> Rnd2(x.w2), h |-> IF vert = 1 THEN Rnd2(x.h2) ELSE -1]
ExpRec(t, x, vert) == ExpRec2(t, x, RoundedPts(x), vert)
GlyphRec3(X, t, ss) ==
    [name |-> t.name, kind |-> t.kind, comps |-> Force([i \in 1..Len(t.comps) |-> t.comps[i][1]]),
     srcs |-> ss, exp |-> Force([s \in 1..Len(ss) |-> ExpRec(t, ss[s], X.vert)])]
GlyphRec2(X, gi, t, srcs, pat, odd) ==
    GlyphRec3(X, t, Force([s \in 1..Len(srcs) |-> SrcRec(X, gi, t, srcs[s], s, pat, odd, RankOf(srcs, s))]))
GlyphRec1(X, gi, t, srcs) ==
    \* C04: pattern 0..3 per glyph; fillers that share their advances (fillSame) also share one pattern
    GlyphRec2(X, gi, t, srcs,
              IF ~X.c4 THEN 2 ELSE IF t.kind = "empty" /\ X.fillSame THEN Mix(X.h, 90) % 4 ELSE Mix(X.h, gi * 17 + 13) % 4,
              (Mix(X.h, gi * 17 + 15) % Len(srcs)) + 1)
GlyphRec(X, gi, t) ==
    GlyphRec1(X, gi, t, IF t.name = ".notdef" /\ X.notdef = "default" THEN <<SrcOfMaster(X, 1)>>
                        ELSE GlyphSrcs(X, gi, \/ t.kind = "empty" /\ X.fillSame /\ Mix(X.h, gi * 17 + 3) % 4 # 0
                                              \/ t.name = ".notdef"
                                              \/ X.allFull))

\* metric pattern mpat: 0 none varies, 1 one alone (malone), 2 all, 3 a third of them
MVaries(X, k) == IF X.mpat = 0 THEN FALSE ELSE IF X.mpat = 1 THEN k = X.malone ELSE IF X.mpat = 2 THEN TRUE
                 ELSE Mix(X.h, 900 + k) % 3 = 0
\* twice the fontinfo value of metric k in master i
Metric2(X, k, i) ==
    IF i = 1 \/ ~MVaries(X, k) THEN 2 * MetricTable[k][3]
    ELSE 2 * (MetricTable[k][3] + (k + 2) * ((Mix3(X.h, 85, i) % 19) - 9) + ((Mix3(X.h, 86 + k, i) % 3) - 1))
         + (IF MetricTable[k][4] = 1 /\ X.halfOK /\ Mix3(X.h, 87 + k, i) % 3 = 0 THEN 1 ELSE 0)

Case4(X, mp, table, used, info, glyphs, notdef) ==
    [sidx |-> Tail(X.midx), variant |-> X.v, seed |-> X.seed, nax |-> NAxes,
     mode |-> IF X.c4 THEN "C04" ELSE "C03", vert |-> X.vert, masters |-> mp, glyphs |-> glyphs, notdef |-> notdef,
     jitter |-> X.J, halves |-> IF X.halfOK THEN 1 ELSE 0, smooth |-> IF X.smooth THEN 1 ELSE 0, mpat |-> X.mpat,
     info |-> info,
     mexp |-> Force([i \in 1..Len(mp) |-> Force([k \in 1..Len(used) |-> <<MetricTable[used[k]][1], Rnd2(info[i][k][2])>>])]),
     dexp |-> Force([k \in 1..Len(used) |-> <<MetricTable[used[k]][1], Rnd2(info[1][k][2])>>])
              \o [k \in 1..Len(HheaTable) |-> <<HheaTable[k][1], HheaTable[k][3]>>]]
Case3(X, mp, table, used) ==
    Case4(X, mp, table, used,
          Force([i \in 1..Len(mp) |-> Force([k \in 1..Len(used) |-> <<MetricTable[used[k]][2], Metric2(X, used[k], i)>>])
                                      \o [k \in 1..Len(HheaTable) |-> <<HheaTable[k][2], 2 * HheaTable[k][3]>>]]),
          Force([gi \in 1..Len(table) |-> GlyphRec(X, gi, table[gi])]), X.notdef)
Case2(X) ==
    Case3(X, <<Origin>> \o Force([i \in 1..(Len(X.midx) - 1) |-> X.gp[X.midx[i + 1]]]),
          IF X.c4 THEN GlyphsC04(<<0, 2, 7, 19, NFillMax>>[(Mix(X.h, 80) % 5) + 1], X.notdef) ELSE GlyphsC03,
          SelectSeq([k \in 1..NMetrics |-> k], LAMBDA k : MetricTable[k][5] = 0 \/ X.vert = 1))
Case1(ssx, v, seed, c4, gp, h) ==
    Case2([h |-> h, gp |-> gp, midx |-> <<0>> \o ssx, v |-> v, seed |-> seed, c4 |-> c4,
           J |-> <<0, 1, 6>>[(Mix(h, 77) % 3) + 1], halfOK |-> Mix(h, 78) % 3 = 0, vert |-> Mix(h, 79) % 2,
           fillSame |-> Mix(h, 81) % 2 = 0,
           \* half of the fonts: smooth outlines (IUP has something to leave out)
           smooth |-> Mix(h, 89) % 2 = 0,
           \* C04: a third of the fonts have no sparse glyph at all (one variation model: the direct HVAR store is possible)
           allFull |-> c4 /\ Mix(h, 88) % 3 = 0,
           notdef |-> IF c4 THEN <<"absent", "all", "default">>[(Mix(h, 82) % 3) + 1] ELSE "absent",
           mpat |-> IF c4 THEN Mix(h, 83) % 4 ELSE (Mix(h, 83) % 2) * 3, malone |-> (Mix(h, 84) % NMetrics) + 1])
\* the abstract font of descriptor <<"case", S, v>> under parameters P
CaseOf(d, P) == Case1(SetToSortSeq(d[2], <), d[3], P.seed, P.mode = "C04", PtSeq,
                      Mix3(Hash(d[2]) % 65521, d[3] * 131 + 7, P.seed))

---------------------------------------------------------------------------
(* Part 3: design-level check with the variation model of VarModel.tla *)

\* (GridMax, GridDen, MaxPts only parameterise VarModel's own input enumeration, which is not used here; they are
\* set to a trivial grid because TLC evaluates VarModel's constant definitions - its case sets - at start-up)
VM == INSTANCE VarModel WITH NAxes <- NAxes, GridMax <- 0, GridDen <- 1, MaxPts <- 0, Probes <- FALSE,
                             inp <- {}, ph <- 0, out <- <<>>

RLoc(P) == Force([a \in Axes |-> VM!R(P[a], 2)])

\* all value columns of one glyph: each a sequence (one rounded value per source, in source order)
Columns(g, n) ==
    UNION {UNION {{[s \in 1..n |-> g.exp[s].pts[c][k][1]], [s \in 1..n |-> g.exp[s].pts[c][k][2]]}
                  : k \in 1..Len(g.exp[1].pts[c])} : c \in 1..Len(g.exp[1].pts)}
    \cup UNION {{[s \in 1..n |-> g.exp[s].offs[i][1]], [s \in 1..n |-> g.exp[s].offs[i][2]]} : i \in 1..Len(g.exp[1].offs)}
    \cup {[s \in 1..n |-> g.exp[s].w]} \cup {[s \in 1..n |-> g.exp[s].h]}

\* for one model and one column (values in source order): deltas rounded as they are produced reproduce every
\* master within 1/2 and the default exactly; <<ok, number of .5 ties among the raw deltas>>
ColumnCheck3(M, m, v, dc) ==
    << \A i \in 1..m : /\ VM!Within(VM!InterpAt(M.sm, 1..m, dc, i, 1, VM!Zero), v[i], VM!Half)
                       /\ (i = 1 => VM!InterpAt(M.sm, 1..m, dc, i, 1, VM!Zero) = v[i]),
       Cardinality({i \in 1..m : VM!IsTie(dc[i][2])}) >>
ColumnCheck2(M, m, v) == ColumnCheck3(M, m, v, VM!DeltaCol(M.weights, 1..m, v, TRUE, 1, <<>>))
ColumnCheck(M, col) == ColumnCheck2(M, Len(col), Force([i \in 1..Len(col) |-> VM!FromInt(col[M.perm[i]])]))

ToF14(r) == (r[1] * F14) \div r[2]
SumTies(res) == FoldSet(LAMBDA r, acc : acc + r[2], 0, res)
GlyphDesign3(M, n, res) ==
    [ok |-> (\A r \in res : r[1]) /\ M.locs[1] = RLoc(Origin),
     ties |-> SumTies(res),
     regions |-> Force([i \in 1..(n - 1) |-> Force([a \in Axes |->
                    <<ToF14(M.influence[i + 1][a][1]), ToF14(M.influence[i + 1][a][2]), ToF14(M.influence[i + 1][a][3])>>])])]
GlyphDesign2(g, M) == GlyphDesign3(M, Len(g.srcs), {ColumnCheck(M, col) : col \in Columns(g, Len(g.srcs))})
GlyphDesign(g) == GlyphDesign2(g, VM!Model(Force([s \in 1..Len(g.srcs) |-> RLoc(g.srcs[s].p)])))
\* global metrics: one model over the masters (every master defines every metric)
MetricDesign2(res) == [ok |-> \A r \in res : r[1], ties |-> SumTies(res)]
MetricDesign1(c, MM) ==
    MetricDesign2({ColumnCheck(MM, [i \in 1..Len(c.masters) |-> c.mexp[i][k][2]]) : k \in 1..Len(c.mexp[1])})
MetricDesign(c) == MetricDesign1(c, VM!Model(Force([i \in 1..Len(c.masters) |-> RLoc(c.masters[i])])))
DesignOf(c) == [glyphs |-> Force([gi \in 1..Len(c.glyphs) |-> GlyphDesign(c.glyphs[gi])]), metrics |-> MetricDesign(c)]
NoDesign(c) == [glyphs |-> Force([gi \in 1..Len(c.glyphs) |-> [ok |-> TRUE, ties |-> -1, regions |-> <<>>]]),
                metrics |-> [ok |-> TRUE, ties |-> -1]]

\* ---- state graph: root -> groups -> cases (so that the TLC workers share the cases)
Init == st = <<"root">>
Next == \/ /\ st = <<"root">>
           /\ st' \in {<<"grp", i>> : i \in 0..(Params.groups - 1)}
        \/ /\ st[1] = "grp"
           /\ st' \in GroupCases(Params, st[2])
Spec == Init /\ [][Next]_vars

EmitCase(c, dsg) ==
    /\ \A gi \in 1..Len(c.glyphs) : dsg.glyphs[gi].ok
    /\ dsg.metrics.ok
    /\ PrintT(<<"REPLAY", ToJson([c EXCEPT !.glyphs = [gi \in 1..Len(c.glyphs) |->
                   [name |-> c.glyphs[gi].name, kind |-> c.glyphs[gi].kind, comps |-> c.glyphs[gi].comps,
                    srcs |-> c.glyphs[gi].srcs, exp |-> c.glyphs[gi].exp,
                    ties |-> dsg.glyphs[gi].ties, regions |-> dsg.glyphs[gi].regions]]]
                   @@ [mties |-> dsg.metrics.ties])>>)
EmitCase1(c, design) == EmitCase(c, IF design = 1 THEN DesignOf(c) ELSE NoDesign(c))
\* the invariant of the generator configs: the design-level bound holds for the case, and the case is printed
SpecBoundAndEmit == st[1] = "case" => EmitCase1(CaseOf(st, Params), Params.design)
=============================================================================
