\* C09 exhaustive, tiny: glyphs a b, one group name per side with every membership per master, 1 or 2 masters,
\* <= 2 kerning entries in total, values -40, 0, 25.
SPECIFICATION Spec
CONSTANTS
    Source = "gen"
    NGlyphs = 2
    Names1 = {"A"}
    Names2 = {"A"}
    NMasters = {1, 2}
    DefaultAt = {"first"}
    MaxEntries = 2
    MaxTotal = 2
    PosVals = {0, 50}
    NegVals = {80}
    Den = 2
    SameBias = FALSE
INVARIANTS
    Emit
CHECK_DEADLOCK FALSE
