\* Trace validation of a batch of real parse trees: env TRACE = ndjson file written by `vh feaparse --trace-out`.
\* The validator is deterministic, so TLC runs to completion; success = no invariant violated and the
\* POSTCONDITION Accepted holds (every record consumed; `NotAccepted` is its negation as a state predicate and is
\* not used as an invariant here because printing a 10^5-state counterexample costs more than the validation).
\* Records that are not behaviours of FeaParse.tla are listed in VERDICT lines.
\* Run with -workers 1 and the StateDeque (depth-first) queue.  No constants: the bounds are the batch.
SPECIFICATION TraceSpec
INVARIANTS
  TypeOK PosInside StackMonotone DiagsInside AcceptedMeansDone
CONSTRAINT Progress
POSTCONDITION Accepted
CHECK_DEADLOCK FALSE
