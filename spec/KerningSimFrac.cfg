\* C09 seeded sample with fractional values: 1..3 masters, glyphs a b c, values -40.5, 0, 0.5, 25 (rounding per
\* master before the deltas are formed matters), <= 2 entries per master.
SPECIFICATION Spec
CONSTANTS
    Source = "gen"
    NGlyphs = 3
    Names1 = {"A", "B"}
    Names2 = {"A"}
    NMasters = {1, 2, 3}
    DefaultAt = {"first", "middle"}
    MaxEntries = 2
    MaxTotal = 6
    PosVals = {0, 1, 50}
    NegVals = {81}
    Den = 2
    SameBias = TRUE
INVARIANTS
    Emit
CHECK_DEADLOCK FALSE
