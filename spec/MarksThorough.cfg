\* C10 thorough exhaustive generator + design-level check.
\* Profile "thorough": modes {plain, given, givenprop, inferprop} x anchor sets per glyph
\*   a 5, e 2, f_i 6 (incl. base+ligature anchors and the contradictory mark+ligature glyph), acutecomb 4,
\*   dotbelowcomb 4, aacute 2 (see Fam in Marks.tla) x 3 category variants in the modes with categories = 15360
\*   sources; masters / default master / .5 pattern derived from the anchors (Hash).
INIT Init
NEXT Next
CONSTANTS
    Profile = "thorough"
INVARIANTS
    Property
    PairsCovered
    MarksAreGdefMarks
    NoSurprise
    Emit
CHECK_DEADLOCK FALSE
