\* Generator A: every single-lookup program with <= 2 rules of one type from the full rule universe
\* (FeaSem!Univ: 12 ss, 4 ms, 7 ls, 16 cs, 6 sp, 10 pp), lookupflag in {none, IgnoreMarks}, 3 wrappings
\* (anonymous in a feature / named block in a feature / standalone block + reference).  One state per
\* candidate (rule pairs that may not share a lookup are not generated).  Glyphs a b c d m(mark).
CONSTANTS Stride = 1 Offset = 0
INIT InitA
NEXT NextNone
INVARIANT EmitCase
CHECK_DEADLOCK FALSE
