------------------------------ MODULE LimitsObs ------------------------------
(***************************************************************************)
(* C19 observation validator.  The file named by the environment variable  *)
(* OBS holds one JSON object per line:                                     *)
(*   {"id": n,                                                             *)
(*    "case": {"items": [{"field": f, "v": v}, ...], "src": "static"|"var"},*)
(*    "dbg": BUILD, "rel": BUILD}        debug- and release-semantics build *)
(*   BUILD = {"how": "exited"|"signaled"|"timedout", "status": n,          *)
(*            "font": "none"|"valid"|"garbage", "sha": "...", "diag": b,   *)
(*            "items": [{"has_stored": b, "stored": n,                     *)
(*                       "has_picture": b, "pic_dev": n}, ...]}            *)
(* (items is only looked at when the build produced a font; all numbers    *)
(* are integers in the unit of the field, see Limits.tla).                 *)
(* One initial state per record; the invariant evaluates the acceptance    *)
(* relation of Limits.tla (BuildOK for both builds, SameOutcome) and       *)
(* prints the verdict.  checks/c19.py reports every record whose verdict   *)
(* is not "accept".                                                        *)
(***************************************************************************)
EXTENDS Limits, IOUtils

Recs == ndJsonDeserialize(IOEnv.OBS)

VARIABLE idx
\* (the generator variable `case` of Limits.tla is not used here; it is pinned to a constant)
InitObs == idx \in 1..Len(Recs) /\ case = [items |-> <<>>, src |-> "none"]
NextObs == UNCHANGED <<idx, case>>

AllowedOf(c) == [i \in 1..Len(c.items) |-> Allowed(c.items[i].field, c.items[i].v)]

Verdict(r) ==
  LET c == r.case
      okd == BuildOK(c, r.dbg)
      okr == BuildOK(c, r.rel)
      same == SameOutcome(c, r.dbg, r.rel)
  IN [id |-> r.id,
      verdict |-> IF okd /\ okr /\ same
                  THEN (IF UnexpectedError(c, r.dbg) \/ UnexpectedError(c, r.rel) THEN "drift" ELSE "accept")
                  ELSE "reject",
      dbg_ok |-> okd, rel_ok |-> okr, same |-> same,
      dbg_build |-> BuildClass(r.dbg), rel_build |-> BuildClass(r.rel),
      dbg_items |-> ItemClasses(c, r.dbg), rel_items |-> ItemClasses(c, r.rel),
      dirs |-> [i \in 1..Len(c.items) |-> Dir(c.items[i].field, c.items[i].v)],
      allowed |-> AllowedOf(c)]

EmitVerdict == PrintT(<<"VERDICT", ToJson(Verdict(Recs[idx]))>>)
=============================================================================
