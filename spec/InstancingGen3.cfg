\* C03/C04 generator + design-level check, 3 axes.
\* Masters: the default plus every set of IN_KMIN..IN_KMAX (<= 4) non-default points of {-1,0,1}^3 minus the origin (26 points, 17 901 layouts),
\* IN_NVAR variants each (sparse sources per glyph, glyph-specific intermediate layer, values, vertical flag;
\* C04 mode: advance patterns, .notdef mode, filler glyph count 0/2/7/19/40, global metric pattern).
\* Environment: IN_MODE (C03|C04), IN_SEED, IN_KMIN, IN_KMAX, IN_NVAR, IN_STRIDE[k], IN_OFFSET (of the layouts
\* with k non-default masters keep (Hash+Offset) % Stride[k] = 0), IN_DESIGN (1: evaluate DesignOf with VarModel).
CONSTANTS
  NAxes = 3
INIT Init
NEXT Next
CHECK_DEADLOCK FALSE
INVARIANTS
  SpecBoundAndEmit
