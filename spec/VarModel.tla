------------------------------ MODULE VarModel ------------------------------
(***************************************************************************)
(* C07: the variation model of fontdrasil/src/variations.rs, transcribed   *)
(* over exact rationals.                                                   *)
(*                                                                         *)
(*   KeyFor / KeyCmp / SortPerm   LocationSortingHat::{new,key_for},       *)
(*                                derive(Ord) of LocationSortKey,          *)
(*                                sort_by_cached_key in VariationModel::new*)
(*   TentNew, RegionsFor          Tent::new, regions_for                   *)
(*   TrimAgainst, MasterInfluence master_influence (incl. the equal-ratio  *)
(*                                multi-axis cut)                          *)
(*   TentOK, AxisScalar, ScalarAt Tent::validate, VariationRegion::        *)
(*                                scalar_at (no extrapolation)             *)
(*   Weights                      delta_weights                            *)
(*   DeltaCol                     VariationModel::deltas_with_rounding     *)
(*                                (None / RoundTiesEven = f64::            *)
(*                                round_ties_even), incl. sub-definitions  *)
(*                                (point_seqs for a subset of the masters) *)
(*   InterpAt                     VariationModel::interpolate_from_deltas  *)
(*                                                                         *)
(* An axis is a position 1..NAxes in `axis_order`; a location is a         *)
(* sequence of NAxes rationals (VariationModel::new completes every        *)
(* location to exactly the axes of axis_order); a tent is <<min,peak,max>>;*)
(* a region is a sequence of NAxes tents.  The tag *names* of the axes     *)
(* never enter: where the code compares tags (ordered_axes in the sort     *)
(* key) the comparison is already decided by known_axes.                   *)
(*                                                                         *)
(* One behaviour = one input: Init picks a set of non-origin grid points   *)
(* (the origin is always added), Next computes the model, the deltas of    *)
(* every value column for every definition (all masters / a sub-set) with  *)
(* and without rounding, and what interpolation returns at every master.   *)
(* The invariants below are the property, checked on the transcription for *)
(* every enumerated input; `Emit` prints the input together with the       *)
(* spec-computed regions, scalars and deltas as one REPLAY line which      *)
(* checks/c07.py replays against the real fontdrasil API (vh varmodel).    *)
(***************************************************************************)
EXTENDS Integers, Sequences, FiniteSets, TLC, Rational, Json, IOUtils, FiniteSetsExt, SequencesExt

CONSTANTS NAxes,     \* number of axes
          GridMax,   \* the numerators of the grid coordinates are -GridMax..GridMax
          GridDen,   \* their common denominator (GridMax <= GridDen: coordinates within [-1,1])
          MaxPts,    \* largest number of non-origin masters
          Probes     \* TRUE: ScalarIn01 is also evaluated at every point of the grid

VARIABLES inp,       \* set of indices (into PtSeq) of the non-origin masters
          ph,        \* 0: input chosen, 1: evaluated
          out        \* the evaluation (a record), <<>> before
vars == <<inp, ph, out>>

EnvInt(name, dflt) == IF name \in DOMAIN IOEnv THEN atoi(IOEnv[name]) ELSE dflt
KMin == EnvInt("VM_KMIN", 0)             \* sizes of the point sets enumerated
KMax == EnvInt("VM_KMAX", MaxPts)
\* sampling: of the sets with k points keep those with (Hash(S) + Offset) % StrideOf(k) = 0
\* (VM_STRIDE<k> for size k, default VM_STRIDE, default 1 = all)
\* (a constant table: IOEnv is expensive to evaluate)
Strides == [k \in 1..(MaxPts + 1) |-> LET kk == k - 1 IN EnvInt("VM_STRIDE" \o ToString(kk), EnvInt("VM_STRIDE", 1))] \o <<>>
StrideOf(k) == Strides[k + 1]
Offset == EnvInt("VM_OFFSET", 0)
Seed == EnvInt("VM_SEED", 1)             \* varies input order, values and the sub-definition

Axes == 1..NAxes
GridNum == (0 - GridMax)..GridMax
Force(s) == s \o <<>>                    \* make TLC materialise a lazily defined sequence once

---------------------------------------------------------------------------
(* sort key *)

NonZero(L) == {a \in Axes : L[a] # Zero}
KnownAxes(L) == SelectSeq([a \in Axes |-> a], LAMBDA a : L[a] # Zero)

\* LocationSortingHat::new: per axis, the coordinates of the masters whose only non-zero coordinate is on that axis
OnAxisPoints(locs) ==
    [a \in Axes |-> {locs[i][a] : i \in {k \in DOMAIN locs : NonZero(locs[k]) = {a}}}]

\* LocationSortingHat::key_for (ordered_axes is the tag list of `known`: equal whenever `known` is equal)
KeyFor(L, oap) ==
    LET known == KnownAxes(L)
    IN [rank |-> Len(known),
        onaxis |-> -Cardinality({a \in Axes : L[a] \in oap[a]}),
        known |-> known,
        signs |-> Force([k \in 1..Len(known) |-> Sign(L[known[k]])]),
        abs |-> Force([k \in 1..Len(known) |-> AbsR(L[known[k]])])]

CmpInt(a, b) == IF a < b THEN -1 ELSE IF a > b THEN 1 ELSE 0

RECURSIVE CmpIntSeq(_, _, _)
CmpIntSeq(s, t, k) ==       \* Vec<T>::cmp: lexicographic, a proper prefix is smaller
    IF k > Len(s) THEN (IF k > Len(t) THEN 0 ELSE -1)
    ELSE IF k > Len(t) THEN 1
    ELSE LET c == CmpInt(s[k], t[k]) IN IF c # 0 THEN c ELSE CmpIntSeq(s, t, k + 1)

RECURSIVE CmpRatSeq(_, _, _)
CmpRatSeq(s, t, k) ==
    IF k > Len(s) THEN (IF k > Len(t) THEN 0 ELSE -1)
    ELSE IF k > Len(t) THEN 1
    ELSE LET c == Cmp(s[k], t[k]) IN IF c # 0 THEN c ELSE CmpRatSeq(s, t, k + 1)

\* #[derive(Ord)] on LocationSortKey: fields in declaration order
KeyCmp(k1, k2) ==
    LET c1 == CmpInt(k1.rank, k2.rank) IN IF c1 # 0 THEN c1 ELSE
    LET c2 == CmpInt(k1.onaxis, k2.onaxis) IN IF c2 # 0 THEN c2 ELSE
    LET c3 == CmpIntSeq(k1.known, k2.known, 1) IN IF c3 # 0 THEN c3 ELSE
    LET c4 == CmpIntSeq(k1.signs, k2.signs, 1) IN IF c4 # 0 THEN c4 ELSE
    CmpRatSeq(k1.abs, k2.abs, 1)

\* stable insertion sort of the indices 1..Len(keys) by key (sort_by_cached_key is a stable sort)
InsertIdx(sorted, x, keys) ==
    LET pos == Cardinality({p \in DOMAIN sorted : KeyCmp(keys[sorted[p]], keys[x]) <= 0})
    IN SubSeq(sorted, 1, pos) \o <<x>> \o SubSeq(sorted, pos + 1, Len(sorted))

RECURSIVE SortFrom(_, _, _)
SortFrom(keys, i, sorted) ==
    IF i > Len(keys) THEN sorted ELSE SortFrom(keys, i + 1, InsertIdx(sorted, i, keys))

Keys(locs) == LET oap == OnAxisPoints(locs) IN Force([i \in DOMAIN locs |-> KeyFor(locs[i], oap)])
\* the permutation: SortPerm(locs)[k] = index in `locs` of the k-th location of the model
SortPerm(locs) == SortFrom(Keys(locs), 1, <<>>)

---------------------------------------------------------------------------
(* regions *)

ZeroTent == <<Zero, Zero, Zero>>
\* Tent::new
TentNew(mn, pk, mx) == IF Gt(pk, Zero) THEN <<Zero, pk, mx>> ELSE <<mn, pk, Zero>>

SetMin(S) == CHOOSE m \in S : \A x \in S : Le(m, x)
SetMax(S) == CHOOSE m \in S : \A x \in S : Ge(m, x)

\* regions_for (minmax starts at (0,0) for every axis)
RegionsFor(locs) ==
    LET mins == Force([a \in Axes |-> SetMin({Zero} \cup {locs[i][a] : i \in DOMAIN locs})])
        maxs == Force([a \in Axes |-> SetMax({Zero} \cup {locs[i][a] : i \in DOMAIN locs})])
    IN Force([i \in DOMAIN locs |->
              Force([a \in Axes |-> IF locs[i][a] = Zero THEN TentNew(Zero, Zero, Zero)
                                    ELSE TentNew(mins[a], locs[i][a], maxs[a])])])

Active(region) == {a \in Axes : region[a] # ZeroTent}

Overlaps(region, prev) ==
    \A a \in Axes : \/ prev[a][2] = region[a][2]
                    \/ (Lt(region[a][1], prev[a][2]) /\ Lt(prev[a][2], region[a][3]))

\* the loop over axis_order inside master_influence; acc = [best |-> ratio, cuts |-> {<<axis, tent>>}]
RECURSIVE CutAxes(_, _, _, _)
CutAxes(region, prev, a, acc) ==
    IF a > NAxes THEN acc
    ELSE IF a \notin Active(region) THEN CutAxes(region, prev, a + 1, acc)
    ELSE LET pp == prev[a][2]
             t == region[a]
         IN IF pp = t[2] THEN CutAxes(region, prev, a + 1, acc)
            ELSE LET lower == Lt(pp, t[2])
                     ratio == IF lower THEN Div(Sub(pp, t[2]), Sub(t[1], t[2]))
                                       ELSE Div(Sub(pp, t[2]), Sub(t[3], t[2]))
                     nt == IF lower THEN <<pp, t[2], t[3]>> ELSE <<t[1], t[2], pp>>
                     acc1 == IF Gt(ratio, acc.best) THEN [best |-> ratio, cuts |-> {}] ELSE acc
                     acc2 == IF ratio = acc1.best THEN [acc1 EXCEPT !.cuts = @ \cup {<<a, nt>>}] ELSE acc1
                 IN CutAxes(region, prev, a + 1, acc2)

TrimAgainst(region, prev) ==
    IF Active(region) # Active(prev) \/ ~Overlaps(region, prev) THEN region
    ELSE LET r == CutAxes(region, prev, 1, [best |-> <<-1, 1>>, cuts |-> {}])
         IN Force([a \in Axes |-> IF \E c \in r.cuts : c[1] = a
                                  THEN (CHOOSE c \in r.cuts : c[1] = a)[2] ELSE region[a]])

RECURSIVE TrimAll(_, _, _)
TrimAll(region, infl, j) ==
    IF j > Len(infl) THEN region ELSE TrimAll(TrimAgainst(region, infl[j]), infl, j + 1)

RECURSIVE InfluenceFrom(_, _, _)
InfluenceFrom(regions, i, infl) ==
    IF i > Len(regions) THEN infl
    ELSE InfluenceFrom(regions, i + 1, Append(infl, TrimAll(regions[i], infl, 1)))

\* master_influence
MasterInfluence(regions) == InfluenceFrom(regions, 1, <<>>)

---------------------------------------------------------------------------
(* scalars, weights *)

\* Tent::validate
TentOK(t) == /\ ~(Gt(t[1], t[2]) \/ Gt(t[2], t[3]))
             /\ ~(Lt(t[1], Zero) /\ Gt(t[3], Zero))

\* one step of the fold in scalar_at_with_args(location, None)
AxisScalar(t, v) ==
    IF ~TentOK(t) THEN One                      \* .filter(|(_, ar)| ar.validate())
    ELSE IF v = t[2] THEN One
    ELSE IF t = ZeroTent THEN One
    ELSE IF Le(v, t[1]) \/ Le(t[3], v) THEN Zero
    ELSE LET sub == IF Lt(v, t[2]) THEN t[1] ELSE t[3]
         IN Div(Sub(v, sub), Sub(t[2], sub))

RECURSIVE ScalarFrom(_, _, _, _)
ScalarFrom(region, L, a, acc) ==
    IF a > NAxes \/ acc = Zero THEN acc
    ELSE ScalarFrom(region, L, a + 1, Mul(acc, AxisScalar(region[a], L[a])))

\* VariationRegion::scalar_at
ScalarAt(region, L) == ScalarFrom(region, L, 1, One)

\* delta_weights: for master i the <<j, scalar>> of the earlier masters with non-zero scalar
Weights(sm) ==
    Force([i \in DOMAIN sm |-> SelectSeq([j \in 1..(i - 1) |-> <<j, sm[j][i]>>], LAMBDA p : p[2] # Zero)])

\* everything VariationModel::new computes, for the locations in the order supplied
Model(locs) ==
    LET perm == SortPerm(locs)
        sl == Force([k \in DOMAIN perm |-> locs[perm[k]]])
        regs == RegionsFor(sl)
        infl == MasterInfluence(regs)
        \* sm[j][i]: scalar of master j's region at master i's location
        sm == Force([j \in DOMAIN infl |-> Force([i \in DOMAIN sl |-> ScalarAt(infl[j], sl[i])])])
    IN [perm |-> perm, locs |-> sl, regions |-> regs, influence |-> infl, sm |-> sm, weights |-> Weights(sm)]

---------------------------------------------------------------------------
(* deltas and interpolation; masters are numbered in model order, def = set of masters with values *)

\* the fold over delta_weights[i]: subtract weight * (already computed, already rounded) delta of every
\* earlier influencing master that has a result (masters without values are skipped)
RECURSIVE SubContrib(_, _, _, _, _)
SubContrib(w, def, acc, k, cur) ==
    IF k > Len(w) THEN cur
    ELSE SubContrib(w, def, acc, k + 1,
                    IF w[k][1] \in def THEN Sub(cur, Mul(acc[w[k][1]][1], w[k][2])) ELSE cur)

\* deltas_with_rounding for one point index; result[i] = <<delta, value before rounding>>
RECURSIVE DeltaCol(_, _, _, _, _, _)
DeltaCol(W, def, v, rnd, i, acc) ==
    IF i > Len(v) THEN acc
    ELSE IF i \notin def THEN DeltaCol(W, def, v, rnd, i + 1, Append(acc, <<Zero, Zero>>))
    ELSE LET raw == SubContrib(W[i], def, acc, 1, v[i])
             d == IF rnd THEN FromInt(RoundHalfEven(raw)) ELSE raw
         IN DeltaCol(W, def, v, rnd, i + 1, Append(acc, <<d, raw>>))

\* interpolate_from_deltas at master i's location
RECURSIVE InterpAt(_, _, _, _, _, _)
InterpAt(sm, def, dcol, i, j, cur) ==
    IF j > Len(dcol) THEN cur
    ELSE InterpAt(sm, def, dcol, i, j + 1,
                  IF j \in def /\ sm[j][i] # Zero THEN Add(cur, Mul(dcol[j][1], sm[j][i])) ELSE cur)

---------------------------------------------------------------------------
(* inputs *)

Origin == [a \in Axes |-> 0]
LexLess(p, q) == \E a \in Axes : p[a] < q[a] /\ \A b \in 1..(a - 1) : p[b] = q[b]
\* the non-origin grid points (numerators), in lexicographic order
PtSeq == SetToSortSeq([Axes -> GridNum] \ {Origin}, LexLess)
NPts == Len(PtSeq)

\* hash of a set of point indices: fold over the elements in ascending order
H(g) == (g * 48271) % 65537
HStep(acc, g) == (acc * 31 + H(g)) % 1000003
RECURSIVE HashFrom(_, _, _)
HashFrom(S, g, acc) == IF g > NPts THEN acc ELSE HashFrom(S, g + 1, IF g \in S THEN HStep(acc, g) ELSE acc)
Hash(S) == HashFrom(S, 1, 17)

\* the sampled k-element subsets of 1..NPts.  FiniteSetsExt!kSubset is limited to base sets of < 63 elements;
\* for the 80 points of 4 axes the subsets are grown element by element (ascending, carrying the hash) and
\* filtered at the leaves
Keep(h, k) == (h + Offset) % StrideOf(k) = 0
RECURSIVE Grow(_, _, _, _, _)
Grow(T, h, lo, r, k) ==
    IF r = 0 THEN (IF Keep(h, k) THEN {T} ELSE {})
    ELSE UNION {Grow(T \cup {g}, HStep(h, g), g + 1, r - 1, k) : g \in lo..(NPts - r + 1)}
SampledSubsets(k) ==
    IF NPts < 60 THEN {S \in kSubset(k, 1..NPts) : Keep(Hash(S), k)} ELSE Grow({}, 17, 1, k, k)

CaseSets == UNION {SampledSubsets(k) : k \in KMin..KMax}

\* the order in which the locations are supplied: ascending grid index (0 = origin), rotated by a
\* seed-dependent amount, reversed for odd hashes
InputSeq(S) ==
    LET asc == SetToSortSeq(S \cup {0}, <)
        m == Len(asc)
        rot == (Hash(S) + Seed) % m
        rs == [k \in 1..m |-> asc[((k - 1 + rot) % m) + 1]]
    IN Force(IF (Hash(S) \div 7) % 2 = 1 THEN [k \in 1..m |-> rs[m + 1 - k]] ELSE rs)

PtOf(g) == IF g = 0 THEN Origin ELSE PtSeq[g]
\* constant tables (evaluated once): the locations of the grid points, the probe locations
LocSeq == Force([g \in 1..NPts |-> Force([a \in Axes |-> R(PtSeq[g][a], GridDen)])])
OriginLoc == Force([a \in Axes |-> Zero])
LocOf(g) == IF g = 0 THEN OriginLoc ELSE LocSeq[g]
ProbeLocs == IF Probes THEN {LocOf(g) : g \in 0..NPts} ELSE {}

\* value columns for m masters: m unit vectors (a basis: without rounding the deltas are linear in the
\* values), a function linear in the location, odd integers (ties against weights 1/2), pseudo-random
\* integers, odd halves (non-integer masters)
NCols(m) == m + 4
Value(k, g, m, c) ==
    IF c <= m THEN FromInt(IF c = k THEN 1 ELSE 0)
    ELSE IF c = m + 1 THEN LET p == PtOf(g) IN
             FromInt(7 + FoldSet(LAMBDA a, acc : acc + (2 * a + 1) * p[a], 0, Axes))
    ELSE IF c = m + 2 THEN FromInt(2 * ((g * 5 + Seed) % 11) + 1)
    ELSE IF c = m + 3 THEN FromInt(((g * g * 37 + g * 11 + Seed * 13) % 41) - 20)
    ELSE R(2 * ((g * 7 + Seed) % 9) - 7, 2)

\* definitions (sets of input positions): all masters, and for >= 3 masters a proper sub-set with the origin
SubDef(in) ==
    LET m == Len(in)
        keep == {k \in 1..m : in[k] = 0 \/ (in[k] * 5 + Seed + m) % 3 # 0}
        lastNZ == CHOOSE k \in 1..m : in[k] # 0 /\ \A k2 \in (k + 1)..m : in[k2] = 0
    IN IF keep = 1..m THEN keep \ {lastNZ} ELSE keep
Defs(in) == IF Len(in) >= 3 THEN <<1..Len(in), SubDef(in)>> ELSE <<1..Len(in)>>

---------------------------------------------------------------------------
(* evaluation of one input *)

JTent(t) == <<RJson(t[1]), RJson(t[2]), RJson(t[3])>>

Eval(S) ==
    LET in == InputSeq(S)
        m == Len(in)
        K == NCols(m)
        locs == Force([k \in 1..m |-> LocOf(in[k])])
        vals == Force([k \in 1..m |-> Force([c \in 1..K |-> Value(k, in[k], m, c)])])
        M == Model(locs)
        inv == Force([k \in 1..m |-> CHOOSE i \in 1..m : M.perm[i] = k])     \* input position -> master
        sm == M.sm
        defs == Defs(in)
        run(d, rnd) ==
            LET def == {inv[k] : k \in defs[d]}
                cols == Force([c \in 1..K |->
                               DeltaCol(M.weights, def, Force([i \in 1..m |-> vals[M.perm[i]][c]]), rnd, 1, <<>>)])
                interp == Force([c \in 1..K |-> Force([i \in 1..m |->
                               IF i \in def THEN InterpAt(sm, def, cols[c], i, 1, Zero) ELSE Zero])])
            IN [d |-> d, rnd |-> rnd, def |-> def, cols |-> cols, interp |-> interp]
        runs == Force([r \in 1..(2 * Len(defs)) |-> run((r + 1) \div 2, r % 2 = 0)])
    IN [in |-> in, locs |-> locs, vals |-> vals, defs |-> defs, model |-> M, runs |-> runs,
        probeScalars |-> {ScalarAt(M.influence[j], L) : j \in 1..m, L \in ProbeLocs},
        emit |-> [n |-> NAxes, den |-> GridDen,
                  locs |-> [k \in 1..m |-> PtOf(in[k])],
                  vals |-> [k \in 1..m |-> [c \in 1..K |-> RJson(vals[k][c])]],
                  defs |-> [d \in DOMAIN defs |-> SetToSortSeq(defs[d], <)],
                  order |-> M.perm,
                  regions |-> [i \in 1..m |-> [a \in Axes |-> JTent(M.influence[i][a])]],
                  sm |-> [j \in 1..m |-> [i \in 1..m |-> RJson(sm[j][i])]],
                  runs |-> [r \in DOMAIN runs |->
                             [d |-> runs[r].d, rnd |-> IF runs[r].rnd THEN 1 ELSE 0,
                              masters |-> SetToSortSeq(runs[r].def, <),
                              deltas |-> [c \in 1..K |-> [i \in 1..m |-> RJson(runs[r].cols[c][i][1])]],
                              ties |-> {<<c, i>> \in (1..K) \X (1..m) :
                                          runs[r].rnd /\ i \in runs[r].def /\ IsTie(runs[r].cols[c][i][2])}]]]]

Init == /\ inp \in CaseSets
        /\ ph = 0
        /\ out = <<>>

Next == /\ ph = 0
        /\ ph' = 1
        /\ out' = Eval(inp)
        /\ UNCHANGED inp

Spec == Init /\ [][Next]_vars

---------------------------------------------------------------------------
(* the property, on the transcription *)

Done == ph = 1
NM == Len(out.in)

\* every region returned: min <= peak <= max inside [-1,1], never spanning zero
TentValid ==
    Done => \A i \in 1..NM : \A a \in Axes :
        LET t == out.model.influence[i][a]
        IN /\ Le(t[1], t[2]) /\ Le(t[2], t[3])
           /\ Ge(t[1], <<-1, 1>>) /\ Le(t[3], One)
           /\ ~(Lt(t[1], Zero) /\ Gt(t[3], Zero))
           /\ t[2] = out.model.locs[i][a]            \* the peak is the master's location

\* scalars of every region at every master (and, with Probes, at every grid point)
ScalarIn01 ==
    Done => /\ \A j \in 1..NM : \A i \in 1..NM :
                 Ge(out.model.sm[j][i], Zero) /\ Le(out.model.sm[j][i], One)
            /\ \A s \in out.probeScalars : Ge(s, Zero) /\ Le(s, One)

\* the lemma reproduction rests on: a master's region is 1 at its own location and 0 at every earlier master
LaterDoesNotInfluenceEarlier ==
    Done => \A j \in 1..NM : /\ out.model.sm[j][j] = One
                             /\ \A i \in 1..(j - 1) : out.model.sm[j][i] = Zero

\* interpolating the deltas at a master's location gives back its value (exactly; within 1/2 when rounding)
Reproduces ==
    Done => \A r \in DOMAIN out.runs : LET run == out.runs[r] IN
              \A i \in run.def : \A c \in 1..NCols(NM) :
                LET v == out.vals[out.model.perm[i]][c]
                    got == run.interp[c][i]
                IN IF run.rnd THEN Within(got, v, Half) ELSE got = v

\* the default master sorts first and interpolation at the default gives the default value exactly
\* (when rounding a non-integer default value: the rounded value)
DefaultExact ==
    Done => /\ out.model.locs[1] = [a \in Axes |-> Zero]
            /\ \A r \in DOMAIN out.runs : LET run == out.runs[r] IN
                 \A c \in 1..NCols(NM) :
                   LET v == out.vals[out.model.perm[1]][c]
                       got == run.interp[c][1]
                   IN /\ 1 \in run.def
                      /\ got = (IF run.rnd THEN FromInt(RoundHalfEven(v)) ELSE v)

\* the model is a function of the *set* of locations: the sort key is a strict total order on distinct
\* locations, so every supply order sorts to the same sequence (everything else is computed from that)

RotateL(s) == [k \in 1..Len(s) |-> s[(k % Len(s)) + 1]]
OrderIndependent ==
    Done => LET locs == out.locs
                keys == Keys(locs)
                sorted(ls) == LET p == SortPerm(ls) IN [k \in 1..Len(ls) |-> ls[p[k]]]
            IN /\ \A i \in 1..NM : \A j \in 1..NM : i # j => KeyCmp(keys[i], keys[j]) = -KeyCmp(keys[j], keys[i])
                                                             /\ KeyCmp(keys[i], keys[j]) # 0
               /\ sorted(Reverse(locs)) = out.model.locs
               /\ sorted(RotateL(locs)) = out.model.locs

Emit == Done => PrintT(<<"REPLAY", ToJson(out.emit)>>)
=============================================================================
