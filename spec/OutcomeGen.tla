----------------------------- MODULE OutcomeGen -----------------------------
(* One initial state per case of OutcomeCases; the invariant prints it as a REPLAY line. *)
EXTENDS OutcomeCases

VARIABLE case
GenInit == case \in Cases \cup Cases2
GenNext == UNCHANGED case
GenSpec == GenInit /\ [][GenNext]_case
Emit ==
  IF "comps" \in DOMAIN case
  THEN PrintT(<<"REPLAY", ToJson([comps |-> case.comps, contour |-> case.contour, cyclic |-> Cyclic(case.comps)])>>)
  ELSE PrintT(<<"REPLAY", ToJson([reg |-> case.reg, bold |-> case.bold, cyclic |-> Cyclic2(case)])>>)
=============================================================================
