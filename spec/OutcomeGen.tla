----------------------------- MODULE OutcomeGen -----------------------------
(* One initial state per case of OutcomeCases; the invariant prints it as a REPLAY line. *)
EXTENDS OutcomeCases

VARIABLE case
GenInit == case \in Cases
GenNext == UNCHANGED case
GenSpec == GenInit /\ [][GenNext]_case
Emit ==
  PrintT(<<"REPLAY", ToJson([comps |-> case.comps, contour |-> case.contour, cyclic |-> Cyclic(case.comps)])>>)
=============================================================================
