\* Generator C (tlc -simulate, seeded): template from Templates1/2/3 (<= 3 lookups), per slot a rule type,
\* a lookupflag in {none, 0, IgnoreMarks, UseMarkFilteringSet @C4/@C5, MarkAttachmentType @C4} and 1..3 distinct rules of FeaSem!Univ.  Depth 20 covers the
\* longest construction (1 + 3 * 5 steps).
CONSTANTS Stride = 1 Offset = 0
INIT InitC
NEXT NextC
INVARIANT EmitSim
CHECK_DEADLOCK FALSE
