\* C09 seeded sample, wider layout: 1..3 masters, default master first / middle / last, groups drawn independently in
\* every master (no SameBias: almost every glyph diverges), <= 6 entries in total.
SPECIFICATION Spec
CONSTANTS
    Source = "gen"
    NGlyphs = 4
    Names1 = {"A", "A_1", "B"}
    Names2 = {"A", "B"}
    NMasters = {1, 2, 3}
    DefaultAt = {"first", "middle", "last"}
    MaxEntries = 3
    MaxTotal = 6
    PosVals = {0, 50}
    NegVals = {80}
    Den = 2
    SameBias = FALSE
INVARIANTS
    Emit
CHECK_DEADLOCK FALSE
