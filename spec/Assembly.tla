----------------------------- MODULE Assembly -----------------------------
(***************************************************************************)
(* C05, assembly half: FontWork::exec (fontbe/src/font.rs) walks the fixed *)
(* list TABLES_TO_MERGE; an entry whose producing job has set a value goes *)
(* into the font.  The transition "the value exists but the table is left  *)
(* out" (a serialisation failure swallowed by to_bytes(..).ok()) is the    *)
(* forbidden one; only avar may be present-but-empty.                      *)
(*                                                                         *)
(* The log (env OBS, ndjson) has one record per recorded successful build: *)
(* `written` = the table work items the build's jobs wrote (hook H1 Write  *)
(* events), `font` = the table tags found in the emitted font.  Each build *)
(* is replayed through the merge loop and compared with the real font.     *)
(***************************************************************************)
EXTENDS Naturals, Sequences, FiniteSets, TLC, Json, IOUtils

\* TABLES_TO_MERGE, in order: work item (as the hooks print it) and table tag
Merge == <<
  <<"Be(Avar)", "avar">>, <<"Be(Cmap)", "cmap">>, <<"Be(Colr)", "COLR">>, <<"Be(Cpal)", "CPAL">>,
  <<"Be(Fvar)", "fvar">>, <<"Be(Head)", "head">>, <<"Be(Hhea)", "hhea">>, <<"Be(Hmtx)", "hmtx">>,
  <<"Be(Gasp)", "gasp">>, <<"Be(Glyf)", "glyf">>, <<"Be(Gpos)", "GPOS">>, <<"Be(Gsub)", "GSUB">>,
  <<"Be(Gdef)", "GDEF">>, <<"Be(Gvar)", "gvar">>, <<"Be(Loca)", "loca">>, <<"Be(Maxp)", "maxp">>,
  <<"Be(Name)", "name">>, <<"Be(Os2)", "OS/2">>, <<"Be(Post)", "post">>, <<"Be(Stat)", "STAT">>,
  <<"Be(Hvar)", "HVAR">>, <<"Be(Mvar)", "MVAR">>, <<"Be(Meta)", "meta">>, <<"Be(Vhea)", "vhea">>,
  <<"Be(Vmtx)", "vmtx">>, <<"Be(Vvar)", "VVAR">> >>
MergeTags == {Merge[i][2] : i \in DOMAIN Merge}
MayBeEmpty == {"avar"}

Obs == ndJsonDeserialize(IOEnv.OBS)
Rng(s) == {s[i] : i \in DOMAIN s}

VARIABLES b, k, font, bad
vars == <<b, k, font, bad>>

Init == b = 1 /\ k = 1 /\ font = {} /\ bad = {}

\* one TABLES_TO_MERGE entry of build b
Consider ==
  /\ b <= Len(Obs) /\ k <= Len(Merge)
  /\ font' = IF Merge[k][1] \in Rng(Obs[b].written) THEN font \cup {Merge[k][2]} ELSE font
  /\ k' = k + 1
  /\ UNCHANGED <<b, bad>>

\* builder.build(): compare with the font the real build emitted
Build ==
  /\ b <= Len(Obs) /\ k = Len(Merge) + 1
  /\ LET real == Rng(Obs[b].font) \cap MergeTags
         dropped == (font \ real) \ MayBeEmpty     \* value existed, table missing: the forbidden transition
         conjured == real \ font                    \* table present although no job wrote a value
     IN bad' = bad \cup {<<b, "dropped", t>> : t \in dropped} \cup {<<b, "conjured", t>> : t \in conjured}
  /\ b' = b + 1 /\ k' = 1 /\ font' = {}

Next == Consider \/ Build
Spec == Init /\ [][Next]_vars

NothingDropped == \A x \in bad : x[2] # "dropped"
NothingConjured == \A x \in bad : x[2] # "conjured"
NotAccepted == b <= Len(Obs)
Report == PrintT(<<"BAD", bad>>)
=============================================================================
