\* C19 generator, thorough tier.  Constants: Tier = "thorough": the quick values plus further multiples of the
\* limits, the 65535/65536-glyph sources (glyph_count + num_h_metrics) and the larger composite totals.
CONSTANT Tier = "thorough"
INIT Init
NEXT Next
INVARIANT Emit
CHECK_DEADLOCK FALSE
