\* Generator of token strings.  Bounds come from the environment (set by checks/c13.py):
\*   ALPHA=main (25 classes) | ext (25 + 63 classes), MAXLEN, FULLLEN (exhaustive up to this length),
\*   KEEP (per 10000, sampling of longer strings), SEED.
\* quick:    main MAXLEN=4 FULLLEN=2 KEEP=220 (about 19k texts);  ext MAXLEN=2 exhaustive (15 577 texts)
\* thorough: main MAXLEN=4 exhaustive (813 801 texts) + MAXLEN=5 FULLLEN=0 KEEP=150 (1.5% sample);
\*           ext MAXLEN=3 FULLLEN=2 KEEP=2000 (20% sample of the 3-lexeme strings)
\* ALPHA=rules: 16 rule templates x 14^3 slot fillers = 43 904 programs; quick KEEP=1000 (10%), thorough all.
SPECIFICATION Spec
INVARIANT Emit
CHECK_DEADLOCK FALSE
