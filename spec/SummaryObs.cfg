\* C17 observation validation: env OBS = ndjson of `vh summary` records (one per compiled font).
\* One state per record (binary tree over the indices); no bounds beyond the records given.
INIT ObsInit
NEXT ObsNext
INVARIANT ObsChecked
CHECK_DEADLOCK FALSE
