\* C06 generator, exhaustive slice "orders" (thorough): glyphs {.notdef, a, b, c}, every present subset with a
\* real glyph (14), no public.glyphOrder + every repetition-free sequence over the 4 names (66), every
\* public.skipExportGlyphs; no components, every glyph has a contour and its own codepoint, default flags.
\* 5148 sources.
CONSTANTS
    NameSeq <- Names4
    Pool <- Pool4
    MaxComps = 0
    MaxCps = 1
    PresentMode = "all"
    OrderMode = "all"
    SkipMode = "all"
    CompMode = "none"
    ContourMode = "true"
    CpMode = "own"
    OptMode = "default"
    RouteMode = "ufo"
    Sampling = FALSE
INIT Init
NEXT Next
INVARIANTS TypeOk P_GlyphSet P_NotdefFirst P_DeclaredOrder P_DerivedLast P_NonExportNowhere P_Cmap P_Post Emit
CHECK_DEADLOCK FALSE
