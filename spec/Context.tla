------------------------------ MODULE Context ------------------------------
(***************************************************************************)
(* The shared build context (fontir/src/orchestration.rs ContextItem /      *)
(* ContextMap, used by both the FE and the BE context): items behind       *)
(* access-control lists, with optional write-through persistence and a     *)
(* read fallback to disk.                                                  *)
(*                                                                         *)
(* This module validates the context-access log of one recorded build      *)
(* (hook H1 events Read / Write / DiskRead, bracketed by the scheduler's   *)
(* JobStart / JobEnd, reduced by checks/graphs.py to integer ids) against  *)
(* the model.  Constants come from the job graph (env GRAPH, the same file *)
(* Workload.tla reads): the declared read and write access of every job.   *)
(*                                                                         *)
(*   Get(j, x)   : allowed by the ACL of j's context copy; returns the     *)
(*                 in-memory value, else (persistence on) the file's       *)
(*   TryGet(j,x) : same ACL, never touches the disk                         *)
(*   Set(j, x)   : allowed by j's write ACL; a value equal to the present  *)
(*                 one is a no-op (no write, no file)                      *)
(* BE jobs read FE items through an unchecked read-only view               *)
(* (fontbe/src/orchestration.rs:990): those reads are not ACL-checked by   *)
(* the code; the model counts the ones the job's declared access does not  *)
(* cover (`undeclared`), it does not forbid them.                          *)
(***************************************************************************)
EXTENDS Naturals, Sequences, FiniteSets, TLC, Json, IOUtils

G == JsonDeserialize(IOEnv.GRAPH)
Log == ndJsonDeserialize(IOEnv.CTXLOG)

Rng(s) == {s[k] : k \in DOMAIN s}
Jobs == 1..G.n
Items == 1..G.nitems
ItemDisc(x) == G.itemdisc[x]          \* discriminant of item x
ItemJob(x) == G.itemjob[x]            \* the work id the item is named after (0 if that id never existed)
IsFeItem(x) == G.itemfe[x]
IsFeJob(j) == G.jobfe[j]

\* Access::check on the job's *final* declared read access and its write access
Allows(acc, x) ==
  \/ acc.k = "All"
  \/ /\ acc.k = "Set"
     /\ \/ ItemDisc(x) \in Rng(acc.vs)
        \/ (ItemJob(x) # 0 /\ ItemJob(x) \in Rng(acc.ss))
ReadAcc(j) == G.finalread[j]
WriteAcc(j) == G.write[j]

VARIABLES mem, disk, running, l, undeclared, bad
vars == <<mem, disk, running, l, undeclared, bad>>

Init ==
  /\ mem = {} /\ disk = Rng(G.staledisk) /\ running = {} /\ l = 1 /\ undeclared = {} /\ bad = {}

Ev == Log[l]
IsEv(e) == l <= Len(Log) /\ Ev.ev = e /\ l' = l + 1

JobStart == IsEv("JobStart") /\ running' = running \cup {Ev.job} /\ UNCHANGED <<mem, disk, undeclared, bad>>
JobEnd == IsEv("JobEnd") /\ running' = running \ {Ev.job} /\ UNCHANGED <<mem, disk, undeclared, bad>>

\* a read by a job (job = 0: the main thread, which holds the read-only root contexts)
Read ==
  /\ IsEv("Read")
  /\ LET j == Ev.job
         x == Ev.item
         checked == j # 0 /\ (IsFeJob(j) = IsFeItem(x))     \* FE job on the FE context, BE job on BE tables
     IN /\ bad' = bad
              \cup (IF j # 0 /\ j \notin running THEN {<<l, "read outside the job's exec">>} ELSE {})
              \cup (IF checked /\ ~Allows(ReadAcc(j), x) THEN {<<l, "ACL would have panicked">>} ELSE {})
              \cup (IF Ev.present # (x \in mem) THEN {<<l, "presence differs from the model">>} ELSE {})
        /\ undeclared' = IF j # 0 /\ ~checked /\ ~Allows(ReadAcc(j), x)
                         THEN undeclared \cup {<<j, x>>} ELSE undeclared
  /\ UNCHANGED <<mem, disk, running>>

Write ==
  /\ IsEv("Write")
  /\ LET j == Ev.job
         x == Ev.item
     IN /\ bad' = bad
              \cup (IF j \notin running THEN {<<l, "write outside the job's exec">>} ELSE {})
              \cup (IF ~Allows(WriteAcc(j), x) THEN {<<l, "write ACL would have panicked">>} ELSE {})
              \cup (IF ~Ev.changed /\ x \notin mem THEN {<<l, "no-op write of an absent item">>} ELSE {})
        /\ mem' = IF Ev.changed THEN mem \cup {x} ELSE mem
        /\ disk' = IF Ev.persisted THEN disk \cup {x} ELSE disk
  /\ UNCHANGED <<running, undeclared>>

\* get() restored the value from a file: only when it was not in memory and a file exists
DiskRead ==
  /\ IsEv("DiskRead")
  /\ bad' = bad \cup (IF Ev.item \in mem THEN {<<l, "disk read of an item that is in memory">>} ELSE {})
                \cup (IF Ev.item \notin disk THEN {<<l, "disk read without a file">>} ELSE {})
  /\ mem' = mem \cup {Ev.item}
  /\ UNCHANGED <<disk, running, undeclared>>

Next == JobStart \/ JobEnd \/ Read \/ Write \/ DiskRead
Spec == Init /\ [][Next]_vars

Consistent == bad = {}
\* violated (= accepted) at the end of the log; prints what was collected on the way
NotAccepted == l <= Len(Log) \/ (PrintT(<<"CTX", bad, undeclared>>) /\ FALSE)
=============================================================================
