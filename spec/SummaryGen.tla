----------------------------- MODULE SummaryGen -----------------------------
(***************************************************************************)
(* C17 generator: enumerates glyph-table shapes (one initial state per     *)
(* case, printed as a REPLAY line); checks/fontcorpus.py turns each case   *)
(* into a MiniFont source that the real compiler builds, and the compiled  *)
(* font is validated against Summary!Fields (SummaryObs.tla) and           *)
(* Sfnt!Fields (SfntObs.tla).                                              *)
(***************************************************************************)
EXTENDS Summary

\* ------------------------------------------------------------------ generator of glyph-table shapes
\* A case is a list of glyph slots after .notdef.  Slot shapes:
\*   "E"  empty glyph                       "S"  box, positive bearings
\*   "SN" box with negative left bearing reaching past the advance (negative right bearing)
\*   "Q"  quadratic outline whose off-curve points lie outside the on-curve hull
\*   "S2" two contours, many points         "C"  composite of the previous outline glyph, shifted
\*   "CF" composite flipped/scaled by a 2x2 (-1, 0.5)   "CR" composite rotated by 90 degrees
\*   "C2" composite of the two previous outline glyphs
\*   "CN" composite of the previous composite (nested)  "CE" composite of an empty glyph only
\* plus per slot an advance class (0, 500, 600) - so trailing runs of equal advances of every length occur -
\* and a code point class.  Variant bits choose static / 2-master variable, kerning, features, vertical.
Shapes == <<"E", "S", "SN", "Q", "S2", "C", "CF", "CR", "C2", "CN", "CE">>
Outline(s) == s \in {"S", "SN", "Q", "S2"}
Composite(s) == s \in {"C", "CF", "CR", "C2", "CN", "CE"}
\* a slot is placeable after the prefix when what it refers to exists
Placeable(prefix, s) ==
    CASE s \in {"C", "CF", "CR"} -> \E i \in Idx(prefix) : Outline(prefix[i])
      [] s = "C2" -> Cardinality({i \in Idx(prefix) : Outline(prefix[i])}) >= 2
      [] s = "CN" -> \E i \in Idx(prefix) : prefix[i] \in {"C", "CF", "CR", "C2"}
      [] s = "CE" -> \E i \in Idx(prefix) : prefix[i] = "E"
      [] OTHER -> TRUE
RECURSIVE ShapeSeqs(_)
ShapeSeqs(n) == IF n = 0 THEN {<<>>}
                ELSE {Append(p, Shapes[k]) : p \in ShapeSeqs(n - 1), k \in Idx(Shapes)}
ValidSeq(q) == \A i \in Idx(q) : Placeable(SubSeq(q, 1, i - 1), q[i])
AdvSeqs(n) == [1..n -> 0..2]          \* advance class per slot: 0 -> 0, 1 -> 500, 2 -> 600
CpClasses == <<"none", "latin", "latin1", "greek", "cyrillic", "hebrew", "arabic", "smp", "high", "pua">>

GenSeed == IF "GEN_SEED" \in DOMAIN IOEnv THEN atoi(IOEnv.GEN_SEED) ELSE 1
GenMode == IF "GEN_MODE" \in DOMAIN IOEnv THEN IOEnv.GEN_MODE ELSE "quick"
\* deterministic mixing of a case index with the seed (selects variants / baselines)
Mix(i, m) == ((i * 7919 + GenSeed * 104729 + 13) % 1000003) % m

\* quick: (a) every valid shape sequence of length 3 with a seed-chosen advance pattern;
\*        (b) every advance pattern of length 4 on seed-chosen shape baselines;
\*        (c) every code point class on a fixed shape list;
\*        (d) the nesting sweep (outer transform x inner composite kind x outline shape).
\* thorough: every valid shape sequence of length 3 x every advance pattern of length 3, plus (b), (c) and
\*        every valid shape sequence of length 4 with a seed-chosen advance pattern.
Seqs3 == SetToSeq({q \in ShapeSeqs(3) : ValidSeq(q)})
Seqs4 == SetToSeq({q \in ShapeSeqs(4) : ValidSeq(q)})
Adv3 == SetToSeq(AdvSeqs(3))
Adv4 == SetToSeq(AdvSeqs(4))
Baselines4 == << <<"S", "C", "E", "SN">>, <<"E", "S", "CE", "C">>, <<"S", "S2", "C2", "CN">> >>
NBase == IF GenMode = "quick" THEN 2 ELSE 3      \* quick: two of the baselines, rotated by the seed

\* The transform an outer ("CN") composite puts on the composite it refers to, crossed with the inner
\* composite's own placement (offset "C", flip + scale "CF", rotation "CR", two components "C2"):
\*   off plain offset, rot45 rotation by 45 degrees (181/256 entries), rot90, skew (x += y/2), flip, scale
NestXf == <<"off", "rot45", "rot90", "skew", "flip", "scale">>
\* Axis set-up of variable cases: plain wght axis, wght with a non-identity <map>, the same plus a point axis
\* (min = default = max, which gets no fvar record), point axis without a map
AxCfg == <<"plain", "mapped", "point+mapped", "point">>

CaseOfX(kind, idx, shapes, adv, cp, nx) ==
    [id |-> kind \o "-" \o ToString(idx), shapes |-> shapes, adv |-> adv, cp |-> cp, nx |-> nx,
     variable |-> Mix(idx, 2) = 1, kern |-> Mix(idx + 1, 3) = 0, fea |-> Mix(idx + 2, 3) = 0,
     vertical |-> Mix(idx + 3, 4) = 0, ax |-> AxCfg[Mix(idx + 5, Len(AxCfg)) + 1]]
CaseOf(kind, idx, shapes, adv, cp) == CaseOfX(kind, idx, shapes, adv, cp, NestXf[Mix(idx + 4, Len(NestXf)) + 1])
CpFor(idx, n) == [i \in 1..n |-> CpClasses[Mix(idx + 17 * i, Len(CpClasses)) + 1]]

CasesA == [i \in Idx(Seqs3) |-> CaseOf("A", i, Seqs3[i], Adv3[Mix(i, Len(Adv3)) + 1], CpFor(i, 3))]
CasesB == [i \in 1..(Len(Adv4) * NBase) |->
             LET b == ((((i - 1) % NBase) + GenSeed) % Len(Baselines4)) + 1
                 a == ((i - 1) \div NBase) + 1
             IN CaseOf("B", i, Baselines4[b], Adv4[a], CpFor(i, 4))]
\* quick: each class once on the first slot (second slot latin) and once on the second (first slot none)
CasesC == IF GenMode = "quick"
          THEN [i \in 1..(2 * Len(CpClasses)) |->
                 LET k == ((i - 1) % Len(CpClasses)) + 1 IN
                 CaseOf("C", i, <<"S", "S", "C">>, <<1, 2, 2>>,
                        IF i <= Len(CpClasses) THEN <<CpClasses[k], "latin", "none">> ELSE <<"none", CpClasses[k], "none">>)]
          ELSE [i \in 1..(Len(CpClasses) * Len(CpClasses)) |->
                 CaseOf("C", i, <<"S", "S", "C">>, <<1, 2, 2>>,
                        <<CpClasses[((i - 1) % Len(CpClasses)) + 1], CpClasses[((i - 1) \div Len(CpClasses)) + 1], "none">>)]
CasesT == [i \in 1..(Len(Seqs3) * Len(Adv3)) |->
             LET q == ((i - 1) % Len(Seqs3)) + 1
                 a == ((i - 1) \div Len(Seqs3)) + 1
             IN CaseOf("T", i, Seqs3[q], Adv3[a], CpFor(i, 3))]
CasesU == [i \in Idx(Seqs4) |-> CaseOf("U", i, Seqs4[i], Adv4[Mix(i, Len(Adv4)) + 1], CpFor(i, 4))]
\* (d) nesting sweep: every outline shape x every inner composite kind x every outer transform, and the
\*     two-component inner composite x every outer transform
OutlineShapes == <<"S", "SN", "Q", "S2">>
InnerKinds == <<"C", "CF", "CR">>
CasesD == [i \in 1..(Len(OutlineShapes) * Len(InnerKinds) * Len(NestXf)) |->
             LET o == ((i - 1) % Len(OutlineShapes)) + 1
                 k == (((i - 1) \div Len(OutlineShapes)) % Len(InnerKinds)) + 1
                 x == ((i - 1) \div (Len(OutlineShapes) * Len(InnerKinds))) + 1
             IN CaseOfX("D", i, <<OutlineShapes[o], InnerKinds[k], "CN">>, Adv3[Mix(i, Len(Adv3)) + 1], CpFor(i, 3), NestXf[x])]
          \o [i \in 1..Len(NestXf) |->
                CaseOfX("E", i, <<"S", "S2", "C2", "CN">>, Adv4[Mix(i, Len(Adv4)) + 1], CpFor(i, 4), NestXf[i])]
GenCases == IF GenMode = "quick" THEN CasesA \o CasesB \o CasesC \o CasesD
            ELSE CasesT \o CasesB \o CasesC \o CasesU \o CasesD

VARIABLE gi
GenInit == gi \in Idx(GenCases)
GenNext == UNCHANGED gi
GenEmit == PrintT(<<"REPLAY", ToJson(GenCases[gi])>>)
=============================================================================
