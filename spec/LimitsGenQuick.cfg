\* C19 generator, quick tier.  Constants: Tier = "quick": per field the boundary values listed in Limits.tla
\* (limit-1, limit, limit+1..3, 40000, 2*limit..., the negative counterparts), static and two-master sources,
\* all pairs of 11 independent fields x 2-3 values, no 65535-glyph sources.  One initial state per case;
\* the invariant checks RelationSane (design level) and prints the REPLAY line.
CONSTANT Tier = "quick"
INIT Init
NEXT Next
INVARIANT Emit
CHECK_DEADLOCK FALSE
