------------------------- MODULE WorkloadTrace -------------------------
(***************************************************************************)
(* Trace validation: a recorded build of the real scheduler (hooks H1/H2,  *)
(* reduced by checks/graphs.py to scheduler events with integer job ids)   *)
(* must be a behaviour of Workload.tla, with every invariant holding in    *)
(* every state along it.                                                   *)
(*                                                                         *)
(* Each event is bound to the spec action named in its comment.  Named     *)
(* deviations from the spec's own Next, forced by what can be observed:    *)
(*  - Launch events are emitted one per job; other threads' events can     *)
(*    fall between them, so a wave is consumed as single launches of jobs  *)
(*    that are Launchable in the current state (LaunchSet is the spec's);  *)
(*  - JobStart is logged after the queue pop, so pop (priority) order is   *)
(*    not observable: any queued job may start;                            *)
(*  - the "Dec" event is logged just before send(), and the main thread    *)
(*    can log Recv before the worker logs anything after send(), so Send   *)
(*    is bound to the Dec event and Recv may take any message in flight;   *)
(*  - try_recv may come up empty although a send is about to complete, so  *)
(*    DrainEnd does not require an empty channel;                          *)
(*  - DrainEnd / HandleEnd have no event: they are silent steps.           *)
(* All of these only enlarge the set of accepted traces on main-thread     *)
(* timing; none weakens a guard evaluated on main-thread state.            *)
(***************************************************************************)
EXTENDS Workload

Rec == ndJsonDeserialize(IOEnv.TRACE)
Len_ == Len(Rec)

VARIABLE l

tvars == <<vars, l>>

IsEvent(e) == l <= Len_ /\ Rec[l].ev = e /\ l' = l + 1
Id == Rec[l].id

\* Launch: one job of a wave (workload.rs:630-662)
TLaunch ==
  /\ IsEvent("Launch")
  /\ mainPc \in {"loop", "recv"} /\ err = "none"
  /\ Cardinality(succ) < jobCount
  /\ Id \in Launchable
  /\ LaunchSet({Id})
  /\ mainPc' = "recv"
  /\ sawErr' = FALSE
  /\ UNCHANGED <<pending, racc, count, succ, jobCount, active, decd, finished, bad, chan,
                 batch, abort, err>>
  /\ UNCHANGED Flow

\* JobStart: Start with unobservable pop order
\* (the closure may have loaded the abort flag before another worker set it: the log decides)
TStart == IsEvent("JobStart") /\ StartFrom(Id, queue, FALSE)

\* JobAborted: the closure saw abort_queued_jobs and returned without a message.  The flag
\* is stored by the panicking worker before its JobEnd is logged, so it may not be set in
\* the model yet: force it.
TAborted ==
  /\ IsEvent("JobAborted")
  /\ Id \in queue
  /\ queue' = queue \ {Id}
  /\ abort' = TRUE
  /\ UNCHANGED <<pending, racc, launched, count, succ, jobCount, active, decd, finished, bad,
                 chan, mainPc, batch, sawErr, err>>
  /\ UNCHANGED Flow

\* JobEnd: Finish (exec returned, counters decremented if ok)
TEnd == IsEvent("JobEnd") /\ Finish(Id, Rec[l].ok, FALSE)

\* Dec (logged just before send): Send
TSend == IsEvent("Dec") /\ Send(Id)

RemoveOne(s, x) ==
  LET k == CHOOSE k \in DOMAIN s : s[k] = x
  IN [m \in 1..(Len(s) - 1) |-> IF m < k THEN s[m] ELSE s[m + 1]]

\* Recv: RecvFirst / Drain, any in-flight message, also straight from "loop" when the wave was empty
TRecv ==
  /\ IsEvent("Recv")
  /\ mainPc \in {"loop", "recv", "drain"} /\ err = "none"
  /\ Id \in Rng(chan)
  /\ Rec[l].ok = (Id \notin bad)
  /\ TakeMsg(Id)
  /\ chan' = RemoveOne(chan, Id)
  /\ mainPc' = "drain"
  /\ UNCHANGED <<pending, racc, launched, count, succ, jobCount, queue, active, decd,
                 finished, bad, abort>>
  /\ UNCHANGED Flow

\* after exec gave up (error or unable) the scope drains and a last non-blocking read happens
TRecvLate ==
  /\ IsEvent("Recv")
  /\ mainPc \in {"err", "unable"}
  /\ Id \in Rng(chan)
  /\ chan' = RemoveOne(chan, Id)
  /\ UNCHANGED <<pending, racc, launched, count, succ, jobCount, queue, active, decd,
                 finished, bad, mainPc, batch, sawErr, abort, err>>
  /\ UNCHANGED Flow

\* HandleSuccess: Handle of exactly this id
THandle ==
  /\ IsEvent("HandleSuccess")
  /\ batch # <<>> /\ Head(batch) = Id
  /\ Handle

\* CompleteOne is logged inside handle_success, after our Handle step: it must agree
TCompleteOne ==
  /\ IsEvent("CompleteOne")
  /\ Id \in succ /\ Id \notin pending
  /\ UNCHANGED vars

\* Unable: the give-up branch of Wave.  Nothing is in flight then, so the model's counters are
\* the real ones and the whole guard can be checked.
TUnable ==
  /\ IsEvent("Unable")
  /\ mainPc = "loop" /\ err = "none"
  /\ Launchable = {} /\ (launched \cap pending) = {}
  /\ mainPc' = "unable"
  /\ UNCHANGED <<pending, racc, launched, count, succ, jobCount, queue, active, decd,
                 finished, bad, chan, batch, sawErr, abort, err>>
  /\ UNCHANGED Flow

\* ScopeDone: the rayon scope returned: every closure has finished
TScopeDone ==
  /\ IsEvent("ScopeDone")
  /\ InFlight = {}
  /\ UNCHANGED vars

\* ExecReturn(ok): LoopExit with the final assertions passing
TExecReturn ==
  /\ IsEvent("ExecReturn")
  /\ mainPc = "done" /\ err = "none"
  /\ UNCHANGED vars

\* Reset: the log holds several recorded builds of the same source (same graph); each starts from Init
TReset ==
  /\ IsEvent("Reset")
  /\ pending' = InitIds
  /\ racc' = [i \in Ids |-> InitRead(i)]
  /\ launched' = {}
  /\ count' = [d \in Discs |-> Cardinality({i \in InitIds : Disc(i) = d})]
  /\ succ' = {}
  /\ jobCount' = Cardinality(InitIds)
  /\ queue' = {} /\ active' = {} /\ decd' = {} /\ finished' = {} /\ bad' = {}
  /\ chan' = <<>>
  /\ mainPc' = "loop"
  /\ batch' = <<>>
  /\ sawErr' = FALSE
  /\ abort' = FALSE
  /\ err' = "none"
  /\ lastw' = [x \in Items |-> 0]
  /\ rfbad' = FALSE

Silent == (DrainEndWith(FALSE) \/ HandleEnd \/ LoopExit) /\ UNCHANGED l

TraceInit == Init /\ l = 1

TraceNext ==
  \/ TLaunch \/ TStart \/ TAborted \/ TEnd \/ TSend \/ TRecv \/ TRecvLate \/ THandle
  \/ TCompleteOne \/ TUnable \/ TScopeDone \/ TExecReturn \/ TReset
  \/ Silent

TraceSpec == TraceInit /\ [][TraceNext]_tvars

\* Acceptance: the whole trace was consumed.  Stated as an invariant whose violation is success.
NotAccepted == l <= Len_

\* How far we got, for diagnosing a rejection (needs -workers 1)
Progress == TLCSet(1, IF TLCGet(1) < l THEN l ELSE TLCGet(1))
ProgressInit == TLCSet(1, 0)
ASSUME ProgressInit
ReportProgress == PrintT(<<"PROGRESS", TLCGet(1), Len_>>)
=============================================================================
