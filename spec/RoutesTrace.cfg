\* Trace validation of executed walks: env TRACE = ndjson file written by checks/c20.py (one record per walk).
\* Deterministic validator: TLC runs to completion; success = no invariant violated and POSTCONDITION Accepted
\* (every record consumed). Records that are not behaviours of Routes.tla / break SameFont are listed in VERDICT
\* lines. Run with -workers 1 and the StateDeque (depth-first) queue. Bounds = the batch.
SPECIFICATION TraceSpec
CONSTANTS
  Classes = {"g", "gb", "gi", "u", "uk"}
  OptSets = {"default", "flatten", "keepdir", "noprod", "decompose", "tristate", "dtc"}
  FormatOps = {"indent", "flow", "keyorder", "quote", "num", "eol"}
  MaxLen = 0
  MinCompiles = 0
  Emit = FALSE
INVARIANTS TraceTypeOK AcceptedMeansSame
CONSTRAINT Progress
POSTCONDITION Accepted
CHECK_DEADLOCK FALSE
