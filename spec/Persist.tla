------------------------------ MODULE Persist ------------------------------
(***************************************************************************)
(* C14, file naming half: the names under which intermediate items are     *)
(* written to the build directory.                                         *)
(*                                                                         *)
(* Encode transcribes fontdrasil::paths::string_to_filename                *)
(* (fontdrasil/src/paths.rs:113-160) over an abstract alphabet whose       *)
(* symbols stand for the character classes the code distinguishes: ASCII   *)
(* lower / upper / digit, '.', a reserved character, the separator '^',    *)
(* '%', non-ASCII letters in both cases (2 UTF-8 bytes) and a 3-byte       *)
(* character, so that the 5-*byte* chunking of the case code is exercised. *)
(* A name is a sequence of symbol indices; the encoding is a sequence of   *)
(* string pieces (the harness joins them; {e} {E} {H} stand for U+00E9,   *)
(* U+00C9 and U+6F22 to keep this file and TLC's output ASCII).           *)
(*                                                                         *)
(* KernFile transcribes fontir::paths::Paths::kern_ir_file: the location   *)
(* formatted to two decimals, given here in 1/1000 units.                  *)
(***************************************************************************)
EXTENDS Naturals, Sequences, FiniteSets, TLC, Json

Alphabet == <<
  [c |-> "a",  bytes |-> 1, upper |-> FALSE, esc |-> ""],
  [c |-> "A",  bytes |-> 1, upper |-> TRUE,  esc |-> ""],
  [c |-> "b",  bytes |-> 1, upper |-> FALSE, esc |-> ""],
  [c |-> "1",  bytes |-> 1, upper |-> FALSE, esc |-> ""],
  [c |-> ".",  bytes |-> 1, upper |-> FALSE, esc |-> ""],
  [c |-> "*",  bytes |-> 1, upper |-> FALSE, esc |-> "%2A"],
  [c |-> "^",  bytes |-> 1, upper |-> FALSE, esc |-> "%5E"],
  [c |-> "%",  bytes |-> 1, upper |-> FALSE, esc |-> "%25"],
  [c |-> "{e}", bytes |-> 2, upper |-> FALSE, esc |-> ""],
  [c |-> "{E}", bytes |-> 2, upper |-> FALSE, esc |-> ""],
  [c |-> "{H}", bytes |-> 3, upper |-> FALSE, esc |-> ""]
>>
Sym == 1..Len(Alphabet)
DOT == 5

CONSTANT MaxLen
Names == UNION {[1..n -> Sym] : n \in 0..MaxLen}

Base32 == <<"0","1","2","3","4","5","6","7","8","9","A","B","C","D","E","F","G","H","I","J","K","L",
            "M","N","O","P","Q","R","S","T","U","V">>

\* the UTF-8 bytes of the name as a sequence of "is ASCII uppercase" flags
RECURSIVE ByteFlags(_)
ByteFlags(s) ==
  IF s = <<>> THEN <<>>
  ELSE LET a == Alphabet[Head(s)]
       IN [k \in 1..a.bytes |-> a.upper /\ k = 1] \o ByteFlags(Tail(s))

Pow2(k) == CASE k = 0 -> 1 [] k = 1 -> 2 [] k = 2 -> 4 [] k = 3 -> 8 [] k = 4 -> 16

\* digit of chunk number c (0-based) of flag sequence f
Digit(f, c) ==
  LET idx == {i \in 1..Len(f) : (i - 1) \div 5 = c}
      RECURSIVE Sum(_)
      Sum(S) == IF S = {} THEN 0
                ELSE LET i == CHOOSE i \in S : TRUE
                     IN (IF f[i] THEN Pow2((i - 1) % 5) ELSE 0) + Sum(S \ {i})
  IN Sum(idx)

CodeDigits(s) ==
  LET f == ByteFlags(s)
      n == (Len(f) + 4) \div 5
      all == [c \in 1..n |-> Digit(f, c - 1)]
      \* drop trailing zeros
      last == IF \E c \in 1..n : all[c] # 0 THEN CHOOSE c \in 1..n : all[c] # 0 /\ \A d \in (c+1)..n : all[d] = 0
              ELSE 0
  IN SubSeq(all, 1, last)

Body(s) ==
  [i \in 1..Len(s) |->
     IF i = 1 /\ s[i] = DOT THEN "%2E"
     ELSE IF Alphabet[s[i]].esc # "" THEN Alphabet[s[i]].esc
     ELSE Alphabet[s[i]].c]

\* reserved device names are handled by the harness-side list (names outside this alphabet)
Encode(s) ==
  LET d == CodeDigits(s)
  IN Body(s) \o (IF d = <<>> THEN <<>> ELSE <<"^">> \o [k \in 1..Len(d) |-> Base32[d[k] + 1]])

\* Decoding the body alone recovers the name: '%' and '^' never occur unescaped in it
Unescape(p) ==
  IF p = "%2E" THEN DOT
  ELSE IF \E k \in Sym : Alphabet[k].esc = p THEN CHOOSE k \in Sym : Alphabet[k].esc = p
  ELSE CHOOSE k \in Sym : Alphabet[k].c = p /\ Alphabet[k].esc = ""
Decode(e) ==
  LET cut == IF \E i \in 1..Len(e) : e[i] = "^" THEN (CHOOSE i \in 1..Len(e) : e[i] = "^") - 1 ELSE Len(e)
  IN [i \in 1..cut |-> Unescape(e[i])]

-----------------------------------------------------------------------------
VARIABLE name
Init == name \in Names
Next == UNCHANGED name
Spec == Init /\ [][Next]_name

\* hence Encode is injective
RoundTrip == Decode(Encode(name)) = name
\* the case code makes names that differ only in ASCII case differ in a case-insensitive comparison too:
\* it is a function of exactly the ASCII-uppercase positions
CaseCodePresent ==
  (\E i \in 1..Len(name) : Alphabet[name[i]].upper) <=> (\E i \in 1..Len(Encode(name)) : Encode(name)[i] = "^")

Emit == PrintT(<<"REPLAY", ToJson([name |-> [i \in 1..Len(name) |-> Alphabet[name[i]].c], file |-> Encode(name)])>>)
=============================================================================
