\* C18 generator + design-level check, quick tier (reduced pools; Names.tla "pools"):
\*  fallback: familyName x styleName(7) x styleMapFamilyName(3) x styleMapStyleName(3) x preferred family(2) x
\*            preferred subfamily(3), each {missing, empty, value(s)}  x {no other field, every other field} = 2268 cases
\*  tail:     unique id(3) x version(4) x postscript name(3) x versionMajor(2) x versionMinor(3) x 2 families  = 432
\*  inst:     0..2 instances, name in 4 tokens x location in 2 x postscript name in 2, 3 families, 1 axis      = 819
\*  inst3:    3 instances, name in 3 tokens x 2 locations, postscript names on first/all, 2 families           = 864
\*  axesfea:  8 axis configurations x 9 feature-code variants x 3 families x 4 instance lists (variable)
\*            + static (lone UFO, designspace with a point axis) x 9 feature-code variants x 2 families         = 954
\*  cvparams: cv01 labels (1..2 of 3 strings) x cv02 labels (2..3 of 2 strings) x cv03 {none, 2 labels} x
\*            {distinct / coinciding feature UI labels, ss01+ss02 none / same name / named like a label, variable / static} = 1152
SPECIFICATION Spec
CONSTANTS
    Slices = {"fallback", "tail", "inst", "inst3", "axesfea", "cvparams"}
    Tier = "quick"
INVARIANTS
    RefsResolve
    ReservedOnlyWhereAllowed
    StringsFromSource
    AllocDense
    NoEmptyRecords
    LegacyNames
    Typographic
    StaticHasNoFvar
    Emit
CHECK_DEADLOCK FALSE
