\* C16 observation mode: env FV_OBS = ndjson file of [id, fam, nax, rules, items]; items are the boxes and
\* substitution lists returned by the real fontir::feature_variations::overlay_feature_variations; they are
\* interpreted by the back-end transcription of FeatVars.tla (Font / FontSubs) at every sample point.
CONSTANT RankFixed = TRUE
CONSTANT Families <- QuickFamilies
INIT ObsInit
NEXT ObsNext
INVARIANT ObsEmit
CHECK_DEADLOCK FALSE
