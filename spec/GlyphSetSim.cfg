\* C06 generator, pseudo-random sampling of the full universe: env C06_N sources, seeded by env C06_SEED
\* (a generator inside the spec; the result does not depend on TLC's workers or -seed).
\* Universe: glyphs {.notdef, a, b, c, d}, every present subset with a real glyph; no public.glyphOrder or any
\* repetition-free sequence over the 5 names (326); every public.skipExportGlyphs within the present glyphs;
\* 0..2 components per glyph, acyclic (also on / through non-exported glyphs); own contours or not per glyph;
\* codepoints {U+0061, U+0062, U+03A9, U+1F600}, 0..2 per glyph, U+0061 possibly on two glyphs;
\* prefer-simple-glyphs on/off, production names on/off, 6 public.postscriptNames variants, layout
\* none / kerning / features.fea / both; one source in four is written as a Glyphs 3 file instead of a UFO.
CONSTANTS
    NameSeq <- Names5
    Pool <- Pool4
    MaxComps = 2
    MaxCps = 2
    PresentMode = "all"
    OrderMode = "all"
    SkipMode = "all"
    CompMode = "all"
    ContourMode = "all"
    CpMode = "all"
    OptMode = "all"
    RouteMode = "both"
    Sampling = TRUE
INIT Init
NEXT Next
INVARIANTS TypeOk P_GlyphSet P_NotdefFirst P_DeclaredOrder P_DerivedLast P_NonExportNowhere P_Cmap P_Post Emit
CHECK_DEADLOCK FALSE
