\* Include graphs: reference machine + transcription of the code + REPLAY lines.  Bounds from the environment
\* (set by checks/c13.py): MODE=small NF=<files> LIMIT=<max include depth constant> |
\* MODE=family LIMIT=50 SPAN=5.
\*  - replay configs use LIMIT=50 (MAX_INCLUDE_DEPTH of the code under test), NF=4 (quick NF=3 + family);
\*  - design-level configs use LIMIT=2,3,4 with NF=4 so that the depth rule interacts with sharing and cycles
\*    on graphs TLC can enumerate exhaustively, and MODE=family LIMIT=8 SPAN=3.
SPECIFICATION Spec
INVARIANTS StackDistinct StackBounded OkMeansBalanced Emit
CHECK_DEADLOCK FALSE
