\* C06 generator, exhaustive slice "post names" (thorough): glyphs {.notdef, a, b, c}, all real glyphs present with
\* or without .notdef, 4 declared orders, every public.skipExportGlyphs, own codepoints, production names on/off x
\* 6 public.postscriptNames variants (absent, empty, all distinct, all the same, first named like the last,
\* partial incl. .notdef).
CONSTANTS
    NameSeq <- Names4
    Pool <- Pool4
    MaxComps = 0
    MaxCps = 1
    PresentMode = "fullpm"
    OrderMode = "few"
    SkipMode = "all"
    CompMode = "none"
    ContourMode = "true"
    CpMode = "own"
    OptMode = "names"
    RouteMode = "ufo"
    Sampling = FALSE
INIT Init
NEXT Next
INVARIANTS TypeOk P_GlyphSet P_NotdefFirst P_DeclaredOrder P_DerivedLast P_NonExportNowhere P_Cmap P_Post Emit
CHECK_DEADLOCK FALSE
