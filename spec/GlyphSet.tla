------------------------------ MODULE GlyphSet ------------------------------
(***************************************************************************)
(* Property C06: the glyph set, the glyph order and cmap are exactly what   *)
(* the source declares.                                                     *)
(*                                                                          *)
(* A behaviour of this module is (1) a nondeterministic choice of one       *)
(* abstract UFO source, one dimension per step (so that TLC -simulate draws *)
(* one random source per trace and BFS enumerates all of them), followed by *)
(* (2) the deterministic pipeline of the compiler, one action per stage:    *)
(*                                                                          *)
(*   PreliminaryOrder  ufo2fontir/src/source.rs glyph_order():              *)
(*                     public.glyphOrder restricted to existing glyphs,     *)
(*                     then the leftovers sorted by name                    *)
(*   InlineNonExport   fontir/src/glyph.rs flatten_all_non_export_components*)
(*                     (glyphs in (depth, name) order, one level each)      *)
(*   DropNonExport     GlyphOrderWork::exec: remove !emit_to_binary         *)
(*   Derive            mixed contour+component glyphs: prefer-simple =>     *)
(*                     convert to contours, otherwise split: contours move  *)
(*                     to a new glyph `g.N` appended to the order           *)
(*                     (resolve_inconsistencies: a glyph waits while a      *)
(*                     pending glyph is reachable through its components)   *)
(*   EnsureNotdef      ensure_notdef_exists_and_is_gid_0: move / generate   *)
(*   BuildCmap         fontbe/src/cmap.rs + write-fonts Cmap::from_mappings *)
(*                     (one codepoint -> two glyph ids is an error)         *)
(*   PostNames         fontbe/src/post.rs: production names + uniquifying   *)
(*                                                                          *)
(* The invariants at stage "Done" are the property, stated over the source  *)
(* alone (not over the pipeline's intermediate values).  Every terminal     *)
(* state is printed as one REPLAY line: the abstract source and the         *)
(* expected order / cmap / post names / components; checks/c06.py compiles  *)
(* the source with the real fontc and compares.                             *)
(***************************************************************************)
EXTENDS Integers, Sequences, FiniteSets, TLC, Json, IOUtils, SequencesExt

CONSTANTS
    NameSeq,      \* universe of source glyph names as a sequence in byte order (= Rust Ord of GlyphName)
    Pool,         \* sequence of codepoints; Pool[1] may be claimed by two glyphs, the others by at most one
    MaxComps,     \* components per glyph: 0..MaxComps
    MaxCps,       \* codepoints per glyph: 0..MaxCps
    PresentMode,  \* "all": every subset with a real glyph | "full": all names | "fullpm": all real, .notdef or not
    OrderMode,    \* "all": no public.glyphOrder + every repetition-free sequence over NameSeq | "few" | "two"
    SkipMode,     \* "all": every public.skipExportGlyphs within the present glyphs | "none" | "single"
    CompMode,     \* "all" | "none"
    ContourMode,  \* "all" | "true"
    CpMode,       \* "all" | "own" (glyph k of NameSeq owns Pool[k] if there is one)
    OptMode,      \* "all" | "default" | "names" | "simple" | "layout"
    RouteMode,    \* source format: "ufo" | "glyphs" | "both"
    Sampling      \* FALSE: every combination (BFS) | TRUE: env C06_N pseudo-random sources, seeded by C06_SEED

\* values for the .cfg files (a .cfg cannot write a tuple)
Names5 == <<".notdef", "a", "b", "c", "d">>
Names4 == <<".notdef", "a", "b", "c">>
Names3 == <<".notdef", "a", "b">>
Pool4 == <<97, 98, 937, 128512>>       \* a b Omega and a supplementary-plane codepoint (U+1F600)
Pool3 == <<97, 98, 128512>>

NOTDEF == ".notdef"
Names == {NameSeq[i] : i \in DOMAIN NameSeq}
Rank(n) == CHOOSE i \in DOMAIN NameSeq : NameSeq[i] = n
SortedSeq(S) == SelectSeq(NameSeq, LAMBDA n : n \in S)      \* S \subseteq Names, ascending byte order
MaxOf(S) == IF S = {} THEN 0 ELSE CHOOSE x \in S : \A y \in S : y <= x

RECURSIVE InjSeqs(_)
\* all sequences without repetition over S (every permutation of every subset)
InjSeqs(S) == {<<>>} \cup UNION {{<<x>> \o t : t \in InjSeqs(S \ {x})} : x \in S}

RECURSIVE InjSeqsUpTo(_, _)
InjSeqsUpTo(S, n) == IF n = 0 THEN {<<>>}
                     ELSE {<<>>} \cup UNION {{<<x>> \o t : t \in InjSeqsUpTo(S \ {x}, n - 1)} : x \in S}

RECURSIVE DedupR(_, _)
DedupR(s, seen) == IF s = <<>> THEN <<>>
                   ELSE IF Head(s) \in seen THEN DedupR(Tail(s), seen)
                   ELSE <<Head(s)>> \o DedupR(Tail(s), seen \cup {Head(s)})
Dedup(s) == DedupR(s, {})       \* IndexSet::insert of a name that is already there is a no-op

VARIABLES
    caseNo,    \* number of the sampled case (0 when enumerating)
    rnd,       \* state of the pseudo-random generator (0 when enumerating)
    stage,     \* which step comes next
    idx,       \* loop counter of the per-glyph / per-codepoint choice steps
    src,       \* the abstract source (chosen in part 1, constant in part 2)
    order,     \* glyph order being built (sequence of names)
    glyphs,    \* name -> [export, cps, comps, contours]: the glyph records in the IR context
    cmap,      \* set of <<codepoint, name>>
    conflicts, \* codepoints that two glyph ids claim (Cmap::from_mappings fails)
    post,      \* post glyph names, by glyph id
    notdefHow  \* history: which branch EnsureNotdef took ("first" | "moved" | "generated")

vars == <<caseNo, rnd, stage, idx, src, order, glyphs, cmap, conflicts, post, notdefHow>>

(***************************************************************************)
(* Sampling: a Lehmer generator (Schrage's method: no 32-bit overflow)      *)
(* seeded by (C06_SEED, case number) - reproducible, independent of TLC's   *)
(* own randomness and of the number of workers.  When Sampling is FALSE     *)
(* every step offers its whole choice set.                                  *)
(***************************************************************************)
EnvInt(name, dflt) == IF name \in DOMAIN IOEnv THEN atoi(IOEnv[name]) ELSE dflt
Seed == EnvInt("C06_SEED", 1)
NCases == EnvInt("C06_N", 100)
Nxt(x) == LET t == 16807 * (x % 127773) - 2836 * (x \div 127773) IN IF t > 0 THEN t ELSE t + 2147483647
Rnd0(sd, i) == Nxt(Nxt(Nxt(1 + ((sd % 2000) * 1000000) + i)))
Draw(r, n) == ((r \div 7) % n) + 1                      \* 1..n
PickFrom(S, r) == LET q == SetToSeq(S) IN q[Draw(r, Len(q))]
\* the choice set offered to a step
Offer(S) == IF Sampling THEN {PickFrom(S, rnd)} ELSE S
Advance == rnd' = IF Sampling THEN Nxt(rnd) ELSE rnd

(***************************************************************************)
(* Part 1: the universe of sources                                          *)
(***************************************************************************)
Real(P) == P \ {NOTDEF}

PresentChoices ==
    CASE PresentMode = "all"    -> {P \in SUBSET Names : Real(P) # {}}
      [] PresentMode = "full"   -> {Names}
      [] PresentMode = "fullpm" -> {Names, Real(Names)}

AllOrders == TLCEval([has : {TRUE}, seq : InjSeqs(Names)] \cup {[has |-> FALSE, seq |-> <<>>]})
AllOrdersSeq == TLCEval(SetToSeq(AllOrders))

\* a few declared orders that exercise every branch: none, reversed, .notdef in the middle with a leftover,
\* a partial order naming one glyph only
FewOrders ==
    LET n == Len(NameSeq)
        rot == [k \in 1..n |-> NameSeq[((k + 1) % n) + 1]]
    IN  {[has |-> FALSE, seq |-> <<>>],
         [has |-> TRUE, seq |-> Reverse(NameSeq)],
         [has |-> TRUE, seq |-> SubSeq(rot, 1, n - 1)],
         [has |-> TRUE, seq |-> <<NameSeq[n]>>]}

TwoOrders == {[has |-> FALSE, seq |-> <<>>], [has |-> TRUE, seq |-> Reverse(NameSeq)]}

OrderChoices == CASE OrderMode = "all" -> AllOrders [] OrderMode = "few" -> FewOrders [] OrderMode = "two" -> TwoOrders
\* sampling: 1/8 no declared order, 1/8 one of FewOrders, 3/4 uniform over OrderChoices
OrderOffer ==
    IF ~Sampling THEN OrderChoices
    ELSE LET c == Draw(Nxt(Nxt(rnd)), 8) IN
         IF c = 1 THEN {[has |-> FALSE, seq |-> <<>>]}
         ELSE IF c = 2 THEN {PickFrom(FewOrders, rnd)}
         ELSE {PickFrom(OrderChoices, rnd)}

SkipChoices(P) ==
    CASE SkipMode = "all"    -> SUBSET P
      [] SkipMode = "none"   -> {{}}
      [] SkipMode = "single" -> {{}} \cup {{g} : g \in P}

\* sampling: a present .notdef stays in the drawn skip set one time in 8 only (such sources are one class)
SkipOffer(P) ==
    IF ~Sampling THEN SkipChoices(P)
    ELSE LET s == PickFrom(SkipChoices(P), rnd) IN
         IF NOTDEF \in s /\ Draw(Nxt(Nxt(rnd)), 8) # 1 THEN {s \ {NOTDEF}} ELSE {s}

RECURSIVE ReachSet(_, _)
\* g and everything reachable from g through components (comps : name -> sequence of names, acyclic)
ReachSet(comps, g) == {g} \cup UNION {ReachSet(comps, c) : c \in Range(comps[g])}

CompChoices(P, g) ==
    IF CompMode = "none" THEN {<<>>}
    ELSE {c \in InjSeqsUpTo(P \ {g}, MaxComps) : \A b \in Range(c) : g \notin ReachSet(src.comps, b)}

ContourChoices(P) == IF ContourMode = "all" THEN [P -> BOOLEAN] ELSE {[g \in P |-> TRUE]}

\* who claims Pool[k]: nobody, one glyph, or (k = 1 only) two glyphs that are neighbours in name order
OwnerChoices(P, k) ==
    LET free == {g \in P : Cardinality(src.cps[g]) < MaxCps}
        ps == SortedSeq(free)
    IN  IF CpMode = "own"
        THEN {IF k <= Len(NameSeq) /\ NameSeq[k] \in P THEN {NameSeq[k]} ELSE {}}
        ELSE {{}} \cup {{g} : g \in free}
             \cup (IF k = 1 THEN {{ps[i], ps[i + 1]} : i \in 1..(Len(ps) - 1)} ELSE {})

\* public.postscriptNames: absent, or one of a few maps (domain = glyph names, also of glyphs that are not
\* there or not exported)
PsChoices(P) ==
    LET r == SortedSeq(Real(P))
        uniq == [g \in Names |-> "p" \o ToString(Rank(g))]            \* every name renamed, all distinct
        dup == [g \in Real(Names) |-> "dup"]                          \* all the same: dup, dup.1, dup.2 ..
        swap == [g \in {r[1]} |-> r[Len(r)]]                          \* first real glyph named like the last
        part == [g \in {r[Len(r)], NOTDEF} |-> IF g = NOTDEF THEN "nd" ELSE "uni0041"]
    IN  {[has |-> FALSE, map |-> <<>>], [has |-> TRUE, map |-> <<>>],
         [has |-> TRUE, map |-> uniq], [has |-> TRUE, map |-> dup],
         [has |-> TRUE, map |-> swap], [has |-> TRUE, map |-> part]}

OptChoices(P) ==
    LET mk(ps, simple, prod, lay) ==
            [preferSimple |-> simple, prodNames |-> prod, hasPs |-> ps.has, psMap |-> ps.map, layout |-> lay]
        nops == [has |-> FALSE, map |-> <<>>]
    IN  CASE OptMode = "default" -> {mk(nops, TRUE, TRUE, "none")}
          [] OptMode = "simple"  -> {mk(nops, s, TRUE, "none") : s \in BOOLEAN}
          [] OptMode = "names"   -> {mk(ps, TRUE, pr, "none") : ps \in PsChoices(P), pr \in BOOLEAN}
          [] OptMode = "layout"  -> {mk(nops, TRUE, TRUE, l) : l \in {"kern", "fea", "both"}}
          [] OptMode = "all"     -> {mk(ps, s, pr, l) : ps \in PsChoices(P), s \in BOOLEAN, pr \in BOOLEAN,
                                                       l \in {"none", "kern", "fea", "both"}}

\* the source format decides where undeclared glyphs go: a UFO has no glyph sequence of its own, the leftovers are
\* sorted by name (ufo2fontir glyph_order); a .glyphs file lists its glyphs, the leftovers keep that file order
\* (glyphs-reader make_glyph_order).  The generated .glyphs files list the glyphs in reverse name order.
RouteOffer ==
    IF RouteMode # "both" THEN {RouteMode}
    ELSE IF Sampling THEN {IF Draw(Nxt(Nxt(Nxt(rnd))), 4) = 1 THEN "glyphs" ELSE "ufo"}
    ELSE {"ufo", "glyphs"}
FileOrder == Reverse(SortedSeq(src.present))
Leftovers(S) == IF src.route = "glyphs" THEN SelectSeq(FileOrder, LAMBDA n : n \in S) ELSE SortedSeq(S)

Src0 == [route |-> "ufo", present |-> {}, hasOrder |-> FALSE, declared |-> <<>>, skip |-> {}, comps |-> <<>>,
         contours |-> <<>>, cps |-> <<>>, preferSimple |-> TRUE, prodNames |-> TRUE, hasPs |-> FALSE,
         psMap |-> <<>>, layout |-> "none"]

Init ==
    /\ caseNo = 0 /\ rnd = 0
    /\ stage = IF Sampling THEN "Start" ELSE "ChoosePresent"
    /\ idx = 1 /\ src = Src0
    /\ order = <<>> /\ glyphs = <<>> /\ cmap = {} /\ conflicts = {} /\ post = <<>> /\ notdefHow = ""

Pipe == Advance /\ UNCHANGED <<caseNo, order, glyphs, cmap, conflicts, post, notdefHow>>

\* sampling only: one branch per case number (IOEnv is expensive: read once, here)
Start ==
    /\ stage = "Start"
    /\ LET sd == Seed IN \E i \in 1..NCases : caseNo' = i /\ rnd' = Rnd0(sd, i)
    /\ stage' = "ChoosePresent"
    /\ UNCHANGED <<idx, src, order, glyphs, cmap, conflicts, post, notdefHow>>

ChoosePresent ==
    /\ stage = "ChoosePresent"
    /\ \E P \in Offer(PresentChoices) :
          src' = [src EXCEPT !.present = P, !.comps = [g \in P |-> <<>>],
                             !.contours = [g \in P |-> TRUE], !.cps = [g \in P |-> {}]]
    /\ stage' = "ChooseOrder" /\ UNCHANGED idx /\ Pipe

ChooseOrder ==
    /\ stage = "ChooseOrder"
    /\ \E o \in OrderOffer : src' = [src EXCEPT !.hasOrder = o.has, !.declared = o.seq]
    /\ stage' = "ChooseSkip" /\ UNCHANGED idx /\ Pipe

ChooseSkip ==
    /\ stage = "ChooseSkip"
    /\ \E s \in SkipOffer(src.present) : src' = [src EXCEPT !.skip = s]
    /\ stage' = "ChooseComps" /\ idx' = 1 /\ Pipe

\* one glyph per step, in name order; a choice never closes a cycle (component cycles are rejected by the
\* compiler before any of the modelled code runs: property C15)
ChooseComps ==
    /\ stage = "ChooseComps"
    /\ LET ps == SortedSeq(src.present) IN
       IF idx > Len(ps)
       THEN /\ stage' = "ChooseContours" /\ UNCHANGED <<src, idx>>
       ELSE /\ \E c \in Offer(CompChoices(src.present, ps[idx])) : src' = [src EXCEPT !.comps[ps[idx]] = c]
            /\ idx' = idx + 1 /\ UNCHANGED stage
    /\ Pipe

ChooseContours ==
    /\ stage = "ChooseContours"
    /\ \E f \in Offer(ContourChoices(src.present)) : src' = [src EXCEPT !.contours = f]
    /\ stage' = "ChooseCps" /\ idx' = 1 /\ Pipe

ChooseCps ==
    /\ stage = "ChooseCps"
    /\ IF idx > Len(Pool)
       THEN /\ stage' = "ChooseOpts" /\ UNCHANGED <<src, idx>>
       ELSE /\ \E own \in Offer(OwnerChoices(src.present, idx)) :
                  src' = [src EXCEPT !.cps = [g \in src.present |->
                                        IF g \in own THEN src.cps[g] \cup {Pool[idx]} ELSE src.cps[g]]]
            /\ idx' = idx + 1 /\ UNCHANGED stage
    /\ Pipe

ChooseOpts ==
    /\ stage = "ChooseOpts"
    /\ \E o \in Offer(OptChoices(src.present)), rt \in RouteOffer :
          src' = [src EXCEPT !.route = rt, !.preferSimple = o.preferSimple, !.prodNames = o.prodNames, !.hasPs = o.hasPs,
                             !.psMap = o.psMap, !.layout = o.layout]
    /\ stage' = "PreliminaryOrder" /\ UNCHANGED idx /\ Pipe

(***************************************************************************)
(* Part 2: the pipeline                                                     *)
(***************************************************************************)
Keep == UNCHANGED <<caseNo, rnd, src, idx>>
KeepH == Keep /\ UNCHANGED notdefHow

\* ufo2fontir glyph_order() / glyphs-reader make_glyph_order(): names of the declared order (public.glyphOrder /
\* the glyphOrder custom parameter) that exist, in that order, then the rest sorted / in file order
PreliminaryOrder ==
    /\ stage = "PreliminaryOrder"
    /\ order' = Dedup(SelectSeq(src.declared, LAMBDA n : n \in src.present))
                  \o Leftovers(src.present \ Range(src.declared))
    /\ glyphs' = [g \in src.present |-> [export |-> g \notin src.skip, cps |-> src.cps[g],
                                         comps |-> src.comps[g], contours |-> src.contours[g]]]
    /\ stage' = "InlineNonExport" /\ UNCHANGED <<cmap, conflicts, post>> /\ KeepH

RECURSIVE Depth(_, _)
Depth(gl, g) == IF gl[g].comps = <<>> THEN 0 ELSE 1 + MaxOf({Depth(gl, c) : c \in Range(gl[g].comps)})

\* fontdrasil depth_sorted_composite_glyphs: sorted by (depth, name)
DepthOrder(gl) ==
    LET D == DOMAIN gl
        lvl(d) == SelectSeq(NameSeq, LAMBDA n : n \in D /\ Depth(gl, n) = d)
        RECURSIVE Cat(_)
        Cat(d) == IF d > Cardinality(D) THEN <<>> ELSE lvl(d) \o Cat(d + 1)
    IN  Cat(0)

\* flatten_non_export_components_for_glyph: one level; the referenced glyph is read from the context, i.e.
\* it has already been flattened itself (it is shallower, so it came earlier)
FlattenOne(cur, rec) ==
    LET sub(c) == IF cur[c].export THEN <<c>> ELSE cur[c].comps
        RECURSIVE Cat(_)
        Cat(s) == IF s = <<>> THEN <<>> ELSE sub(Head(s)) \o Cat(Tail(s))
    IN  [rec EXCEPT !.comps = Cat(rec.comps),
                    !.contours = rec.contours \/ \E c \in Range(rec.comps) : ~cur[c].export /\ cur[c].contours]

RECURSIVE InlineAll(_, _, _)
InlineAll(snap, cur, todo) ==
    IF todo = <<>> THEN cur
    ELSE LET g == Head(todo) IN
         IF \E c \in Range(snap[g].comps) : ~cur[c].export
         THEN InlineAll(snap, [cur EXCEPT ![g] = FlattenOne(cur, snap[g])], Tail(todo))
         ELSE InlineAll(snap, cur, Tail(todo))

InlineNonExport ==
    /\ stage = "InlineNonExport"
    /\ glyphs' = InlineAll(glyphs, glyphs, DepthOrder(glyphs))
    /\ stage' = "DropNonExport" /\ UNCHANGED <<order, cmap, conflicts, post>> /\ KeepH

RECURSIVE DeepContours(_, _)
DeepContours(gl, g) == gl[g].contours \/ \E c \in Range(gl[g].comps) : DeepContours(gl, c)

\* convert_components_to_contours: everything reachable is drawn into the glyph itself
ToContours(gl, g) == [gl EXCEPT ![g].contours = DeepContours(gl, g), ![g].comps = <<>>]

RECURSIVE ConvertDangling(_, _, _)
ConvertDangling(gl, ord, todo) ==
    IF todo = <<>> THEN gl
    ELSE LET g == Head(todo) IN
         IF \E c \in Range(gl[g].comps) : c \notin Range(ord)
         THEN ConvertDangling(ToContours(gl, g), ord, Tail(todo))
         ELSE ConvertDangling(gl, ord, Tail(todo))

DropNonExport ==
    /\ stage = "DropNonExport"
    /\ LET neworder == SelectSeq(order, LAMBDA g : glyphs[g].export) IN
       /\ order' = neworder
       \* "component references to glyphs that are not retained": nothing is left to do after the inlining,
       \* transcribed all the same
       /\ glyphs' = ConvertDangling(glyphs, neworder, neworder)
    /\ stage' = "Derive" /\ UNCHANGED <<cmap, conflicts, post>> /\ KeepH

Mixed(gl, g) == gl[g].contours /\ gl[g].comps # <<>>

RECURSIVE FreeIndex(_, _, _)
FreeIndex(base, used, i) == IF (base \o "." \o ToString(i)) \in used THEN FreeIndex(base, used, i + 1) ELSE i
\* name_for_derivative: first of g.0, g.1, .. that is not in the glyph order
DerivedName(g, ord) == g \o "." \o ToString(FreeIndex(g, Range(ord), 0))

Derived0 == [export |-> TRUE, cps |-> {}, comps |-> <<>>, contours |-> TRUE]

\* split_glyph + move_contours_to_new_component
Split(gl, ord, g) ==
    LET n == DerivedName(g, ord) IN
    [gl |-> [x \in DOMAIN gl \cup {n} |->
                IF x = n THEN Derived0
                ELSE IF x = g THEN [gl[g] EXCEPT !.contours = FALSE, !.comps = Append(gl[g].comps, n)]
                ELSE gl[x]],
     ord |-> Append(ord, n)]

RECURSIVE Resolve(_, _, _, _)
\* resolve_inconsistencies: queue in glyph order; a glyph is postponed while some glyph still waiting for its
\* fix is reachable through its components
Resolve(queue, pending, gl, ord) ==
    IF queue = <<>> THEN [gl |-> gl, ord |-> ord]
    ELSE LET g == Head(queue) IN
         IF (ReachSet([x \in DOMAIN gl |-> gl[x].comps], g) \ {g}) \cap pending # {}
         THEN Resolve(Tail(queue) \o <<g>>, pending, gl, ord)
         ELSE IF src.preferSimple
              THEN Resolve(Tail(queue), pending \ {g}, ToContours(gl, g), ord)
              ELSE LET s == Split(gl, ord, g) IN Resolve(Tail(queue), pending \ {g}, s.gl, s.ord)

Derive ==
    /\ stage = "Derive"
    /\ LET todo == SelectSeq(order, LAMBDA g : Mixed(glyphs, g))
           r == Resolve(todo, Range(todo), glyphs, order)
       IN  glyphs' = r.gl /\ order' = r.ord
    /\ stage' = "EnsureNotdef" /\ UNCHANGED <<cmap, conflicts, post>> /\ KeepH

EnsureNotdef ==
    /\ stage = "EnsureNotdef"
    /\ IF order # <<>> /\ order[1] = NOTDEF
       THEN notdefHow' = "first" /\ UNCHANGED <<order, glyphs>>
       ELSE IF NOTDEF \in Range(order)
       THEN /\ order' = <<NOTDEF>> \o SelectSeq(order, LAMBDA g : g # NOTDEF)     \* IndexSet::move_index(i, 0)
            /\ notdefHow' = "moved" /\ UNCHANGED glyphs
       ELSE /\ order' = <<NOTDEF>> \o order
            /\ notdefHow' = "generated"
            \* synthesize_notdef replaces whatever the context held under that name (a non-export .notdef)
            /\ glyphs' = [x \in DOMAIN glyphs \cup {NOTDEF} |-> IF x = NOTDEF THEN Derived0 ELSE glyphs[x]]
    /\ stage' = "BuildCmap" /\ UNCHANGED <<cmap, conflicts, post>> /\ Keep

BuildCmap ==
    /\ stage = "BuildCmap"
    /\ LET m == {<<cp, i>> : cp \in UNION {glyphs[order[j]].cps : j \in DOMAIN order}, i \in DOMAIN order}
           mappings == {p \in m : p[1] \in glyphs[order[p[2]]].cps}
           bad == {p[1] : p \in {q \in mappings : \E r \in mappings : r[1] = q[1] /\ r[2] # q[2]}}
       IN  /\ conflicts' = bad
           \* (on a conflict no font is produced; the unambiguous part is kept for the comparison all the same)
           /\ cmap' = {<<p[1], order[p[2]]>> : p \in {q \in mappings : q[1] \notin bad}}
    /\ stage' = "PostNames" /\ UNCHANGED <<order, glyphs, post>> /\ KeepH

RECURSIVE FreeSuffix(_, _, _)
FreeSuffix(name, seen, n) ==
    IF (name \o "." \o ToString(n)) \in DOMAIN seen THEN FreeSuffix(name, seen, n + 1) ELSE n

\* public.postscriptNames may name glyphs that do not exist (and so rename a generated .notdef); in a .glyphs file
\* a production name is a field of a glyph that exists
PsEff == IF src.route = "glyphs" THEN [g \in (DOMAIN src.psMap) \cap src.present |-> src.psMap[g]] ELSE src.psMap

RECURSIVE PostFold(_, _, _)
\* fontbe post.rs: rename through the map, then make duplicates unique with .N (N counts up per name)
PostFold(todo, seen, acc) ==
    IF todo = <<>> THEN acc
    ELSE LET g == Head(todo)
             want == IF g \in DOMAIN PsEff THEN PsEff[g] ELSE g
         IN  IF want \in DOMAIN seen
             THEN LET n == FreeSuffix(want, seen, seen[want])
                      name == want \o "." \o ToString(n)
                  IN  PostFold(Tail(todo), (name :> 1) @@ (want :> (n + 1)) @@ seen, Append(acc, name))
             ELSE PostFold(Tail(todo), (want :> 1) @@ seen, Append(acc, want))

Renaming == src.prodNames /\ src.hasPs

PostNames ==
    /\ stage = "PostNames"
    /\ post' = IF Renaming THEN PostFold(order, <<>>, <<>>) ELSE order
    /\ stage' = "Done" /\ UNCHANGED <<order, glyphs, cmap, conflicts>> /\ KeepH

Next ==
    \/ Start \/ ChoosePresent \/ ChooseOrder \/ ChooseSkip \/ ChooseComps \/ ChooseContours \/ ChooseCps \/ ChooseOpts
    \/ PreliminaryOrder \/ InlineNonExport \/ DropNonExport \/ Derive \/ EnsureNotdef \/ BuildCmap \/ PostNames

Spec == Init /\ [][Next]_vars

(***************************************************************************)
(* Layout fragments the check adds to a case (src.layout): kerning between  *)
(* neighbouring real glyphs (also non-exported ones: those pairs must       *)
(* vanish) and a single substitution between the first two exported real    *)
(* glyphs.  .notdef is left out: a non-exported source .notdef is replaced  *)
(* by a generated glyph of the same name.                                   *)
(***************************************************************************)
KernSrc ==
    LET r == SortedSeq(Real(src.present)) IN
    IF src.layout \in {"kern", "both"} /\ Len(r) >= 2
    THEN {<<r[i], r[i + 1]>> : i \in 1..(Len(r) - 1)} \cup {<<r[Len(r)], r[1]>>}
    ELSE {}
KernExpected == {p \in KernSrc : p[1] \notin src.skip /\ p[2] \notin src.skip}

FeaSrc ==
    LET e == SortedSeq(Real(src.present) \ src.skip) IN
    IF src.layout \in {"fea", "both"} /\ Len(e) >= 2 THEN {<<e[1], e[2]>>} ELSE {}

(***************************************************************************)
(* The property, over the source alone                                      *)
(***************************************************************************)
Exported == src.present \ src.skip
IsDerivedOf(n, g) == \E i \in 0..Len(order) : n = g \o "." \o ToString(i)
DerivedGlyphs == {n \in Range(order) : n \notin Exported /\ n # NOTDEF}
Ok == conflicts = {}
NoDup(s) == \A i, j \in DOMAIN s : s[i] = s[j] => i = j

\* font glyph set = exported source glyphs + .notdef + glyphs the compiler derived from exported glyphs
GlyphSetOk ==
    /\ NoDup(order)
    /\ Exported \cup {NOTDEF} \subseteq Range(order)
    /\ \A n \in DerivedGlyphs : \E g \in Exported : IsDerivedOf(n, g)
    /\ src.preferSimple => DerivedGlyphs = {}

NotdefFirst == order # <<>> /\ order[1] = NOTDEF

\* after .notdef: the exported glyphs the source ordered, in that order, then the other exported glyphs in the
\* fixed order of the source format (sorted by name / file order)
DeclaredOrderOk ==
    LET E == Exported \ {NOTDEF}
        fromSource == SelectSeq(order, LAMBDA n : n \in E)
        want == Dedup(SelectSeq(src.declared, LAMBDA n : n \in E)) \o Leftovers(E \ Range(src.declared))
    IN  fromSource = want

\* derived glyphs come last (where they go is not part of the property; the check reports a different
\* position as drift)
DerivedLast ==
    \A i, j \in DOMAIN order : order[i] \in DerivedGlyphs /\ order[j] \notin DerivedGlyphs => j < i

\* no trace of a non-exported glyph: not in the glyph set (except a generated .notdef taking the name), not
\* as a component, none of its codepoints unless an exported glyph has it too, no layout rule
NonExportNowhere ==
    /\ \A g \in src.skip \cap src.present : g # NOTDEF => g \notin Range(order)
    /\ \A n \in Range(order) : \A c \in Range(glyphs[n].comps) : c \in Range(order) /\ c \notin src.skip
    /\ \A n \in Range(order) : ~(glyphs[n].contours /\ glyphs[n].comps # <<>>)
    /\ \A p \in cmap : \E g \in Exported : p[1] \in src.cps[g]
    /\ \A p \in KernExpected \cup FeaSrc : p[1] \in Range(order) /\ p[2] \in Range(order)

\* each codepoint of an exported glyph maps to that glyph and nothing else is mapped; a codepoint that two
\* exported glyphs claim makes the source contradictory: the compiler refuses it (outcome, not property)
SharedCps == {cp \in UNION {src.cps[g] : g \in Exported} :
                 \E g, h \in Exported : g # h /\ cp \in src.cps[g] /\ cp \in src.cps[h]}
CmapOk ==
    /\ conflicts = SharedCps
    /\ cmap = UNION {{<<cp, g>> : cp \in src.cps[g] \ SharedCps} : g \in Exported}

\* post names: one per glyph, all different; the source's names unless renaming is on, then the production
\* name wherever that is unambiguous
Want(g) == IF Renaming /\ g \in DOMAIN PsEff THEN PsEff[g] ELSE g
\* the name of glyph i is settled by the source alone: nobody else wants it
Firm(i) == \A j \in DOMAIN order : j # i => Want(order[j]) # Want(order[i])
PostOk ==
    /\ Len(post) = Len(order)
    /\ NoDup(post)
    /\ ~Renaming => post = order
    /\ \A i \in DOMAIN order : Firm(i) /\ (\A j \in DOMAIN post : j # i => post[j] # Want(order[i]))
                                 => post[i] = Want(order[i])

Property == GlyphSetOk /\ NotdefFirst /\ DeclaredOrderOk /\ DerivedLast /\ NonExportNowhere /\ CmapOk /\ PostOk

TypeOk ==
    /\ stage \in {"Start", "ChoosePresent", "ChooseOrder", "ChooseSkip", "ChooseComps", "ChooseContours", "ChooseCps",
                  "ChooseOpts", "PreliminaryOrder", "InlineNonExport", "DropNonExport", "Derive",
                  "EnsureNotdef", "BuildCmap", "PostNames", "Done"}
    /\ src.present \subseteq Names /\ src.skip \subseteq src.present
    /\ Range(order) \subseteq DOMAIN glyphs \/ stage = "ChoosePresent"

(***************************************************************************)
(* REPLAY emission                                                          *)
(***************************************************************************)
Kind(g) == IF glyphs[g].comps # <<>> THEN "composite" ELSE IF glyphs[g].contours THEN "simple" ELSE "empty"

Case ==
    [k |-> caseNo,
     src |-> [route |-> src.route, file_order |-> FileOrder, present |-> SortedSeq(src.present), has_order |-> src.hasOrder, declared |-> src.declared,
              skip |-> SortedSeq(src.skip), comps |-> src.comps, contours |-> src.contours, cps |-> src.cps,
              prefer_simple |-> src.preferSimple, prod_names |-> src.prodNames, has_ps |-> src.hasPs,
              ps_map |-> src.psMap, layout |-> src.layout, kern |-> KernSrc, fea |-> FeaSrc],
     exp |-> [outcome |-> IF Ok THEN "ok" ELSE "cmap_conflict", conflicts |-> conflicts,
              order |-> order, derived |-> DerivedGlyphs, generated_notdef |-> NOTDEF \notin Exported,
              notdef |-> notdefHow,
              cmap |-> cmap, post |-> post, renaming |-> Renaming,
              post_firm |-> [i \in DOMAIN order |-> Firm(i) /\ \A j \in DOMAIN post : j # i => post[j] # Want(order[i])],
              comps |-> [i \in DOMAIN order |-> glyphs[order[i]].comps],
              kinds |-> [i \in DOMAIN order |-> Kind(order[i])],
              kern |-> KernExpected, fea |-> FeaSrc]]

Done == stage = "Done"
P_GlyphSet == Done => GlyphSetOk
P_NotdefFirst == Done => NotdefFirst
P_DeclaredOrder == Done => DeclaredOrderOk
P_DerivedLast == Done => DerivedLast
P_NonExportNowhere == Done => NonExportNowhere
P_Cmap == Done => CmapOk
P_Post == Done => PostOk
Emit == Done => PrintT(<<"REPLAY", ToJson(Case)>>)
=============================================================================
