\* As RoutesMC.cfg with all 6 formatting operations (2^6 variants) (thorough tier).
SPECIFICATION SpecMC
CONSTANTS
  Classes = {"g", "gb", "gi", "u", "uk"}
  OptSets = {"default", "flatten", "keepdir", "noprod", "decompose", "tristate", "dtc"}
  FormatOps = {"indent", "flow", "keyorder", "quote", "num", "eol"}
  MaxLen = 0
  MinCompiles = 0
  Emit = FALSE
INVARIANTS TypeOK SameFont DispatchOK
VIEW view
CHECK_DEADLOCK FALSE
