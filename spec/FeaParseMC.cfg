\* Design-level model check of the sink protocol.
\* Bounds: texts of <= 4 bytes over {a, L c (two-byte char)}, tokens of 0..2 bytes (any candidate text),
\* node nesting <= 2, 2 node/token kinds, <= 2 diagnostics with lo,hi in 0..len+1.
CONSTANTS
  MaxLen = 4
  MaxTok = 2
  MaxDepth = 2
  Kinds = {"k1", "k2"}
SPECIFICATION MCSpec
INVARIANTS TypeOK PosInside StackMonotone DiagsInside DoneMeansAll Prefix Lossless TokensOnChars DiagsOnChars
CHECK_DEADLOCK FALSE
