\* Walk generator (quick): every walk of <= 3 steps per design class that ends in a Compile and has >= 2 compiles;
\* 6 formatting operations, 3 option sets. The history is part of the state (no VIEW): one state per walk.
SPECIFICATION Spec
CONSTANTS
  Classes = {"g", "gb", "gi", "u", "uk"}
  OptSets = {"default", "keepdir", "noprod"}
  FormatOps = {"indent", "flow", "keyorder", "quote", "num", "eol"}
  MaxLen = 3
  MinCompiles = 2
  Emit = TRUE
INVARIANTS TypeOK SameFont DispatchOK EmitWalk
CHECK_DEADLOCK FALSE
