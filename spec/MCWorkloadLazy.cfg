\* Workload.tla over a job graph given by env GRAPH with the lazy-send reduction (SpecLazy): breadth-first,
\* complete for that sub-behaviour set; used for slices too large for MCWorkloadGraph.cfg.
SPECIFICATION SpecLazy
INVARIANTS
  TypeOK NoSchedulerPanic NoUnable OrderOK ReadsFromCanonical StagesDisjoint AlsoNeverRuns
  SuccessImpliesRan DoneMeansAll ErrorReported NoHang CountersExactUnlessAbort
CHECK_DEADLOCK TRUE
