\* C16 generator, thorough tier.  Families as in FeatVarsQuick.cfg, n/size:
\*   E1 8190/8190 (exhaustive)  E2 27000/27000 (exhaustive)  E3 8000/27390 (seeded stride)
\*   E4 5700/5700 (exhaustive)  E5 3000/91125 (seeded stride)
\*   R1 8000, R2 3000 pseudo-random (FV_SEED);  M 20 (3 hand-made + 17 random)
\* Sample points as in FeatVarsQuick.cfg.  env: FV_SEED (0..9999).  Run with -continue -deadlock.
\* RankFixed = FALSE: Rank arithmetic as in the code before repo fix 'feature-variation rank ordering' (finding KF2);
\* TRUE: as in the code now (sort by count_ones, words aligned at the end).
CONSTANT RankFixed = TRUE
CONSTANT Families <- ThoroughFamilies
INIT Init
NEXT Next
INVARIANT EmitAndDesign
CHECK_DEADLOCK FALSE
