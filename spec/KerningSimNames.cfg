\* C09 seeded sample where group NAMES matter: 2..3 masters, glyphs a b c d, side-1 groups named A, A_1, A_2 and
\* side-2 groups named A, A_1 -- the names fontc synthesizes for the refined classes of a divergent group A are
\* A_1, A_2, ..., so a source group that is really called A_1 (consistent or not, with its own kerning) competes with
\* them for the output-class name.  SameBias keeps many groups consistent.  <= 3 entries per master, -40 / 0 / 25.
SPECIFICATION Spec
CONSTANTS
    Source = "gen"
    NGlyphs = 4
    Names1 = {"A", "A_1", "A_2"}
    Names2 = {"A", "A_1"}
    NMasters = {2, 3}
    DefaultAt = {"first", "middle"}
    MaxEntries = 3
    MaxTotal = 9
    PosVals = {0, 50}
    NegVals = {80}
    Den = 2
    SameBias = TRUE
INVARIANTS
    Emit
CHECK_DEADLOCK FALSE
