\* all names of length <= 5 over the 11-symbol alphabet (177 156 names; length 6 crosses the 5-byte chunk
\* already with the multi-byte symbols at length 3)
CONSTANT MaxLen = 5
SPECIFICATION Spec
INVARIANTS RoundTrip CaseCodePresent Emit
CHECK_DEADLOCK FALSE
