------------------------------- MODULE Routes -------------------------------
(***************************************************************************)
(* C20  Same design, same font through every entry point and container.    *)
(*                                                                         *)
(* One design (a font description) is *presented* to fontc in several      *)
(* ways.  A presentation is (container, formatting variant); a compile     *)
(* additionally picks the entry point and an option set.                   *)
(*                                                                         *)
(*   containers  glyphs designs: "file"     X.glyphs on disk               *)
(*                               "memory"   the same text, Input::from_glyphs*)
(*                               "package"  the text split into X.glyphspackage*)
(*                               "bundle"   the .glyphspackage shipped next to*)
(*                                          the file (designs that have one)*)
(*               ufo designs:    "ufo"      X.ufo alone                    *)
(*                               "ds"       one-source designspace listing *)
(*                                          only X.ufo, empty <lib>        *)
(*                               "dslib"    same, its <lib> repeats the    *)
(*                                          UFO-only lib keys of X.ufo     *)
(*               both:           "misnamed" the file/dir under an unknown  *)
(*                                          extension (NOT equivalent: the *)
(*                                          dispatch must refuse it)       *)
(*   variant     the set of insignificant formatting operations applied    *)
(*               (whitespace, key order, quoting, number spelling, EOL)    *)
(*   entry       "cli" (fontc binary: Args -> Options -> fontc::run)       *)
(*               "lib" (Options::default() + changes -> generate_font)     *)
(*                                                                         *)
(* Actions: Repackage(c), Reformat(op) change the presentation only - they *)
(* are stuttering steps w.r.t. the output; Compile(entry, opt, res) records*)
(* an observation.  INVARIANT SameFont: all compiles of the design with    *)
(* the same option set and the same equivalence class yield the same       *)
(* result.  The equivalence classes (Cls) encode the only two exceptions,  *)
(* both taken from the property text / the documented behaviour:           *)
(*   "dsnolib"   a designspace does not inherit the `public.*` lib keys    *)
(*               that fontc reads through the designspace lib from its     *)
(*               default master (ufo2fontir/src/source.rs:283-294,         *)
(*               merge_default_master_lib_into_designspace_lib with        *)
(*               skip_public_keys; the only such key consumed from         *)
(*               designspace.lib without a fallback to the UFO lib is      *)
(*               public.skipExportGlyphs, source.rs:351);                  *)
(*   "noinclude" Glyphs text in memory has no directory: include(file)     *)
(*               cannot be resolved and the build must FAIL                *)
(*               (glyphs2fontir source_path = None -> include_dir None ->  *)
(*               fontbe/src/features.rs NoIncludePathError).               *)
(*                                                                         *)
(* The module is used in three ways (see the .cfg files):                  *)
(*   RoutesMC*   the results are produced by the mechanism model below     *)
(*               (ModelFont: extension dispatch, flag merging of Args vs   *)
(*               Options::default(), lib merging, include root, version    *)
(*               stamp); TLC checks SameFont/DispatchOK in every reachable *)
(*               state (history hidden by VIEW).                           *)
(*   RoutesGen*, RoutesSim*  same, with the history in the state: every    *)
(*               walk up to MaxLen ending in a Compile with >= MinCompiles *)
(*               compiles is printed as one REPLAY line = a schedule of    *)
(*               presentations for the harness (checks/c20.py).            *)
(*   RoutesTrace.tla  the results are the sha256 of the bytes the real     *)
(*               compiler produced; every recorded walk is validated.      *)
(***************************************************************************)
EXTENDS Naturals, Sequences, FiniteSets, TLC, Json

CONSTANTS
  Classes,      \* design classes explored (subset of DOMAIN ClassDef)
  OptSets,      \* option sets explored (subset of DOMAIN OptDef)
  FormatOps,    \* formatting operations
  MaxLen,       \* generator: bound on the walk length
  MinCompiles,  \* generator: emit only walks with at least this many Compile steps
  Emit          \* generator: print REPLAY lines

VARIABLES
  design,     \* the class record of the design being presented (constant along a behaviour)
  container,  \* current container
  variant,    \* current formatting variant: set of FormatOps applied
  obs,        \* observations: set of [opt, cls, res]
  hist        \* history of steps (generator only; hidden by VIEW in RoutesMC)

vars == <<design, container, variant, obs, hist>>
view == <<design, container, variant, obs>>

-----------------------------------------------------------------------------
(* Design classes.  kind: front end family; selfContained: the source does *)
(* not include() other files; bundle: a .glyphspackage of the same design  *)
(* is shipped next to the .glyphs file; ufoOnly: the UFO lib carries       *)
(* public.skipExportGlyphs (read from the designspace lib only).           *)
ClassDef == [
  g  |-> [id |-> "g",  kind |-> "glyphs", selfContained |-> TRUE,  bundle |-> FALSE, ufoOnly |-> FALSE],
  gb |-> [id |-> "gb", kind |-> "glyphs", selfContained |-> TRUE,  bundle |-> TRUE,  ufoOnly |-> FALSE],
  gi |-> [id |-> "gi", kind |-> "glyphs", selfContained |-> FALSE, bundle |-> FALSE, ufoOnly |-> FALSE],
  u  |-> [id |-> "u",  kind |-> "ufo",    selfContained |-> TRUE,  bundle |-> FALSE, ufoOnly |-> FALSE],
  uk |-> [id |-> "uk", kind |-> "ufo",    selfContained |-> TRUE,  bundle |-> FALSE, ufoOnly |-> TRUE]
]

Containers(D) ==
  IF D.kind = "glyphs"
  THEN {"file", "memory", "package", "misnamed"} \cup (IF D.bundle THEN {"bundle"} ELSE {})
  ELSE {"ufo", "ds", "dslib", "misnamed"}

InitContainer(D) == IF D.kind = "glyphs" THEN "file" ELSE "ufo"

\* in-memory text has no path, so the command line tool cannot be given it
Entries(c) == IF c = "memory" THEN {"lib"} ELSE {"cli", "lib"}

-----------------------------------------------------------------------------
(* Input::new (fontc/src/lib.rs:46-64): the front end is selected by the   *)
(* file extension (case sensitive); from_glyphs selects GlyphsMemory.      *)
Ext(D, c) ==
  CASE c = "file"     -> "glyphs"
    [] c = "package"  -> "glyphspackage"
    [] c = "bundle"   -> "glyphspackage"
    [] c = "ufo"      -> "ufo"
    [] c = "ds"       -> "designspace"
    [] c = "dslib"    -> "designspace"
    [] c = "misnamed" -> IF D.kind = "glyphs" THEN "glyphs_txt" ELSE "ufoz"
    [] OTHER          -> "none"

Dispatch(D, c) ==
  IF c = "memory" THEN "GlyphsMemory"
  ELSE LET e == Ext(D, c) IN
    CASE e \in {"designspace", "ufo"}       -> "DesignSpacePath"
      [] e \in {"glyphs", "glyphspackage"}  -> "GlyphsPath"
      [] e = "fontra"                       -> "FontraPath"
      [] OTHER                              -> "Unrecognized"

-----------------------------------------------------------------------------
(* Option sets.  `names` is the vocabulary of `vh routes` (CLI spelling and *)
(* library spelling of each name live in harness/src/routes.rs); on/off/   *)
(* clear/skipfea is what the names mean for the flag model below.          *)
NoOpt == [names |-> <<>>, on |-> {}, off |-> {}, clear |-> {}, skipfea |-> FALSE, debg |-> FALSE]
OptDef == [
  default    |-> NoOpt,
  flatten    |-> [NoOpt EXCEPT !.names = <<"flatten">>, !.on = {"FLATTEN_COMPONENTS"}],
  keepdir    |-> [NoOpt EXCEPT !.names = <<"keep_direction", "no_prefer_simple">>,
                               !.on = {"KEEP_DIRECTION"}, !.clear = {"PREFER_SIMPLE_GLYPHS"}],
  noprod     |-> [NoOpt EXCEPT !.names = <<"no_production_names", "skip_features">>,
                               !.clear = {"PRODUCTION_NAMES"}, !.skipfea = TRUE],
  decompose  |-> [NoOpt EXCEPT !.names = <<"decompose">>, !.on = {"DECOMPOSE_COMPONENTS"}],
  tristate   |-> [NoOpt EXCEPT !.names = <<"no_propagate_anchors", "no_erase_open_corners", "no_flatten">>,
                               !.off = {"PROPAGATE_ANCHORS", "ERASE_OPEN_CORNERS", "FLATTEN_COMPONENTS"}],
  dtc        |-> [NoOpt EXCEPT !.names = <<"decompose_transformed", "propagate_anchors", "erase_open_corners">>,
                               !.on = {"DECOMPOSE_TRANSFORMED_COMPONENTS", "PROPAGATE_ANCHORS",
                                       "ERASE_OPEN_CORNERS"}]
]
\* --emit-lookup-debug-info / Options.compile_debg is deliberately not an option set here: the Debg table records
\* the absolute path of every feature source file ("<dir>/features.fea:5:4"), so its bytes depend on where the
\* presentation lives on disk, and two presentations cannot live at the same path.

-----------------------------------------------------------------------------
(* Mechanism model (what decides the bytes), transcribed from the code:    *)
(*  - fontir Flags::default() = PREFER_SIMPLE_GLYPHS | PRODUCTION_NAMES;   *)
(*  - args.rs Args::flags(): starts from Flags::default() and *sets* every *)
(*    flag from the argument values, whose defaults are: prefer-simple     *)
(*    true, no-production-names false, all others false / None;            *)
(*  - a library user starts from Options::default() (flags =               *)
(*    Flags::default()) and changes what the option set names;             *)
(*  - lib.rs merge_compilation_flags: (options.flags | source flags) minus *)
(*    flags_to_disable, identical for run() and generate_font() because    *)
(*    both call generate_font_internal, which also passes                  *)
(*    Some(version()) as the stamp for the name table;                     *)
(*  - the lone .ufo is wrapped into a synthetic designspace and the whole  *)
(*    lib of the default master is merged into its lib; for a real         *)
(*    designspace the public.* keys are skipped;                           *)
(*  - include root: parent directory of the path; none for in-memory text. *)
ArgDefaults == [prefer_simple |-> TRUE, no_production_names |-> FALSE]
FlagsDefault == {"PREFER_SIMPLE_GLYPHS", "PRODUCTION_NAMES"}

CliFlags(o) ==
  LET d == OptDef[o]
      preferSimple == IF "PREFER_SIMPLE_GLYPHS" \in d.clear THEN FALSE ELSE ArgDefaults.prefer_simple
      noProd == IF "PRODUCTION_NAMES" \in d.clear THEN TRUE ELSE ArgDefaults.no_production_names
  IN  (IF preferSimple THEN {"PREFER_SIMPLE_GLYPHS"} ELSE {})
      \cup (IF noProd THEN {} ELSE {"PRODUCTION_NAMES"})
      \cup d.on

LibFlags(o) == (FlagsDefault \ OptDef[o].clear) \cup OptDef[o].on

\* flags the source itself asks for (ufo2ft filters in the lib / Glyphs defaults): a private (non public.*) key,
\* merged into the designspace lib on both UFO routes, so it does not depend on the container
SourceFlags(D) == IF D.kind = "glyphs" THEN {"ERASE_OPEN_CORNERS", "PROPAGATE_ANCHORS"} ELSE {}

MergedFlags(D, entry, o) ==
  ((IF entry = "cli" THEN CliFlags(o) ELSE LibFlags(o)) \cup SourceFlags(D)) \ OptDef[o].off

(* Lib / fontinfo keys of the (default) master that decide output, and WHERE ufo2fontir reads each of them     *)
(* (ufo2fontir/src/source.rs).  via = "masterlib": straight from the default master's lib.plist / fontinfo.plist *)
(* (same file on every route); "dslib+fallback": designspace lib first, then the master's lib.plist;             *)
(* "dslib": only through the designspace lib, into which the constructor merges the default master's lib -       *)
(* every key for a lone .ufo, every key EXCEPT public.* for a .designspace (merge_default_master_lib_into_       *)
(* designspace_lib, skip_public_keys; comment at source.rs:283-286: "if source was a designspace we don't want   *)
(* to copy over keys like public.skipExportGlyphs, but we do if it was a UFO").                                  *)
LibKeyDef == [
  public_glyphOrder          |-> [key |-> "public.glyphOrder",          via |-> "masterlib",       public |-> TRUE],   \* :1016
  public_postscriptNames     |-> [key |-> "public.postscriptNames",     via |-> "masterlib",       public |-> TRUE],   \* :1059-1063
  ufo2ft_useProductionNames  |-> [key |-> "com.github.googlei18n.ufo2ft.useProductionNames",
                                                                        via |-> "masterlib",       public |-> FALSE],  \* :1054
  public_openTypeMeta        |-> [key |-> "public.openTypeMeta",        via |-> "masterlib",       public |-> TRUE],   \* :1176
  public_openTypeCategories  |-> [key |-> "public.openTypeCategories",  via |-> "dslib+fallback",  public |-> TRUE],   \* :1018-1024
  public_skipExportGlyphs    |-> [key |-> "public.skipExportGlyphs",    via |-> "dslib",           public |-> TRUE],   \* :351
  ufo2ft_filters             |-> [key |-> "com.github.googlei18n.ufo2ft.filters",
                                                                        via |-> "dslib",           public |-> FALSE],  \* :396-404
  ufo2ft_colorPalettes       |-> [key |-> "com.github.googlei18n.ufo2ft.colorPalettes",
                                                                        via |-> "dslib",           public |-> FALSE],  \* :381,2130
  ufo2ft_colorLayers         |-> [key |-> "com.github.googlei18n.ufo2ft.colorLayers",
                                                                        via |-> "dslib",           public |-> FALSE],  \* :389,2159
  varLib_featureVarsFeatureTag |-> [key |-> "com.github.fonttools.varLib.featureVarsFeatureTag",
                                                                        via |-> "dslib",           public |-> FALSE],  \* :1332-1338
  fontinfo_all               |-> [key |-> "fontinfo.plist (openTypeOS2*, openTypeGaspRangeRecords, names, metrics ...)",
                                                                        via |-> "masterlib",       public |-> FALSE]
]

\* The documented UFO-only exception is DERIVED: a key a real designspace cannot inherit from its master is one
\* that is read only through the designspace lib and is skipped by the merge because it is public.
UfoOnlyKeys == {k \in DOMAIN LibKeyDef : LibKeyDef[k].via = "dslib" /\ LibKeyDef[k].public}
\* ... and that is exactly the key the code comment names; public.openTypeMeta, public.postscriptNames,
\* public.glyphOrder, public.openTypeCategories and all fontinfo values are NOT exceptions.
ASSUME UfoOnlyKeys = {"public_skipExportGlyphs"}

\* keys present in a design of class D (a `uk` design has all of them, a `u` design all but the UFO-only ones:
\* the worst case for the model)
KeysOf(D) ==
  IF D.kind # "ufo" THEN {}
  ELSE {k \in DOMAIN LibKeyDef : k \notin UfoOnlyKeys \/ D.ufoOnly}

\* does the value of key k of the default master reach the front end when the design is presented in container c
Seen(k, c) ==
  LET d == LibKeyDef[k] IN
  CASE d.via = "masterlib"      -> TRUE
    [] d.via = "dslib+fallback" -> TRUE
    [] d.via = "dslib"          -> IF d.public
                                   THEN c \in {"ufo", "dslib"}   \* merged for a lone UFO; repeated by hand in dslib
                                   ELSE TRUE                     \* private keys are merged on both routes
    [] OTHER                    -> FALSE

LibSeen(D, c) == {k \in KeysOf(D) : Seen(k, c)}

IncludeRoot(c) == IF c = "memory" THEN "none" ELSE "parent directory"

Stamp(entry) == "fontc::version()"   \* both entry points: generate_font_internal passes Some(version())

ModelFont(D, c, entry, o) ==
  IF Dispatch(D, c) = "Unrecognized" THEN "fail"
  ELSE IF ~D.selfContained /\ IncludeRoot(c) = "none" THEN "fail"
  ELSE [design |-> D.id, frontend |-> IF D.kind = "glyphs" THEN "glyphs2fontir" ELSE "ufo2fontir",
        flags |-> MergedFlags(D, entry, o), skipfea |-> OptDef[o].skipfea, debg |-> OptDef[o].debg,
        lib |-> LibSeen(D, c), stamp |-> Stamp(entry)]

-----------------------------------------------------------------------------
(* Equivalence classes of presentations (the property's "same design").    *)
Cls(D, c) ==
  CASE c = "misnamed"                      -> "unrecognized"
    [] c = "memory" /\ ~D.selfContained    -> "noinclude"
    [] c = "ds" /\ (KeysOf(D) \cap UfoOnlyKeys) # {} -> "dsnolib"
    [] OTHER                               -> "main"

\* PROPERTY: same option set, same class => same result (bytes, or failure on both);
\* a presentation that cannot resolve its includes may only fail or agree, never build something else
SameFont ==
  \A a \in obs : \A b \in obs :
    a.opt = b.opt =>
      /\ a.cls = b.cls => a.res = b.res
      /\ (a.cls = "noinclude" /\ b.cls = "main") => (a.res = "fail" \/ a.res = b.res)

\* INTERNAL: an unknown extension is refused
DispatchOK == \A a \in obs : a.cls = "unrecognized" => a.res = "fail"

-----------------------------------------------------------------------------
(* Actions *)
Repackage(c) ==
  /\ c \in Containers(design) \ {container}
  /\ container' = c
  /\ UNCHANGED <<design, variant, obs>>

Reformat(op) ==
  /\ op \in FormatOps
  /\ variant' = IF op \in variant THEN variant \ {op} ELSE variant \cup {op}
  /\ UNCHANGED <<design, container, obs>>

Compile(entry, o, res) ==
  /\ entry \in Entries(container)
  /\ o \in DOMAIN OptDef
  /\ obs' = obs \cup {[opt |-> o, cls |-> Cls(design, container), res |-> res]}
  /\ UNCHANGED <<design, container, variant>>

-----------------------------------------------------------------------------
(* Generator / model checking: results come from the mechanism model.      *)
Init ==
  /\ design \in {ClassDef[c] : c \in Classes}
  /\ container = InitContainer(design)
  /\ variant = {}
  /\ obs = {}
  /\ hist = <<>>

Step(rec) == hist' = Append(hist, rec)

Next ==
  /\ Len(hist) < MaxLen
  /\ \/ \E c \in Containers(design) : Repackage(c) /\ Step([a |-> "Repackage", c |-> c])
     \/ \E op \in FormatOps : Reformat(op) /\ Step([a |-> "Reformat", op |-> op])
     \/ \E e \in Entries(container) : \E o \in OptSets :
          /\ Compile(e, o, ModelFont(design, container, e, o))
          /\ Step([a |-> "Compile", entry |-> e, opt |-> o])

\* model checking without the history: the state space is finite without a length bound.
\* SameFont only relates observations with the same option set, so a behaviour that mixes option sets adds
\* nothing: each behaviour sticks to the option set of its first compile (keeps obs small).
NextMC ==
  /\ UNCHANGED hist
  /\ \/ \E c \in Containers(design) : Repackage(c)
     \/ \E op \in FormatOps : Reformat(op)
     \/ \E e \in Entries(container) : \E o \in OptSets :
          /\ \A a \in obs : a.opt = o
          /\ Compile(e, o, ModelFont(design, container, e, o))

Spec == Init /\ [][Next]_vars
SpecMC == Init /\ [][NextMC]_vars

TypeOK ==
  /\ design \in {ClassDef[c] : c \in DOMAIN ClassDef}
  /\ container \in Containers(design)
  /\ variant \subseteq FormatOps
  /\ \A a \in obs : a.opt \in DOMAIN OptDef /\ a.cls \in {"main", "dsnolib", "noinclude", "unrecognized"}

NCompiles == Cardinality({k \in 1..Len(hist) : hist[k].a = "Compile"})

\* one REPLAY line per walk that ends in a Compile and has enough compiles to compare
EmitWalk ==
  (Emit /\ Len(hist) > 0 /\ hist[Len(hist)].a = "Compile" /\ NCompiles >= MinCompiles) =>
    PrintT(<<"REPLAY", ToJson([class |-> design.id, steps |-> hist,
                               opts |-> [o \in OptSets |-> OptDef[o].names]])>>)

\* simulation: one line per walk, at its end
EmitWalkEnd ==
  (Emit /\ Len(hist) = MaxLen /\ NCompiles >= MinCompiles) =>
    PrintT(<<"REPLAY", ToJson([class |-> design.id, steps |-> hist,
                               opts |-> [o \in OptSets |-> OptDef[o].names]])>>)
=============================================================================
