\* C08: axis definitions extracted from repository fixtures (ndjson file named by the environment variable
\* C08_CASES; rationals as [n,d]) on their own -- used when the combined run (Source = "all") cannot hold some
\* fixture in 32 bits and the fixtures are then evaluated one by one. UVals/DVals/Den/GridMul/NMax are unused.
\* TwoRoutesQuantised exempts fixture cases (overflow on 3-digit coordinates); the exact invariant is checked
\* and checks/c08.py compares the real font against `norm` within `tolU` with Python integers.
SPECIFICATION Spec
CONSTANTS
    Source = "file"
    UVals = {0}
    DVals = {0}
    Den = 1
    GridMul = 1
    NMin = 1
    NMax = 1
INVARIANTS
    FvarIsUserBounds
    AvarRequiredMaps
    AvarNonDecreasing
    NormalizationAnchors
    TwoRoutesExact
    InstancesInRange
    NormDesignRoundTrip
    Emit
CHECK_DEADLOCK FALSE
