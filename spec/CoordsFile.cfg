\* C08: axis definitions extracted from repository fixtures (ndjson file named by the environment variable
\* C08_CASES; rationals as [n,d]). UVals/DVals/Den/GridMul/NMax are unused in this mode. The quantised
\* two-route invariant is left out here (32-bit overflow on 3-digit coordinates); the exact one is checked,
\* and checks/c08.py compares the real font against `norm` within `tolU` with Python fractions.
SPECIFICATION Spec
CONSTANTS
    Source = "file"
    UVals = {0}
    DVals = {0}
    Den = 1
    GridMul = 1
    NMin = 1
    NMax = 1
INVARIANTS
    FvarIsUserBounds
    AvarRequiredMaps
    AvarNonDecreasing
    NormalizationAnchors
    TwoRoutesExact
    InstancesInRange
    NormDesignRoundTrip
    Emit
CHECK_DEADLOCK FALSE
