---------------------------- MODULE Workload ----------------------------
(***************************************************************************)
(* The fontc job scheduler (fontc/src/workload.rs), one action per         *)
(* critical section of Workload::exec / read_completions /                 *)
(* handle_success, plus the worker closure.                                *)
(*                                                                         *)
(* The job graph is a constant record G read from a JSON file named by     *)
(* the environment variable GRAPH.  It is either hand-written (small       *)
(* protocol models under spec/graphs/) or extracted by checks/graphs.py    *)
(* from the hook trace of a real build of /repo's working tree, in which   *)
(* case the declared accesses, dynamic creations, rewrites AND the         *)
(* observed read/write sets (folded into G.before) are those of the real   *)
(* code.  Ids are 1..G.n; G.names[i] is the printable AnyWorkId.           *)
(*                                                                         *)
(* Deliberate abstractions (named, see DESIGN.md section 5):               *)
(*  - a job's exec is one interval [Start, Finish]; its context accesses   *)
(*    are folded into G.before[j] = jobs that conflict with j on some item *)
(*    (one of them writing) and come first in the canonical order;         *)
(*  - unbounded worker threads; the run queue is popped in priority order  *)
(*    with arbitrary tie-breaking (sort_by_cached_key + pop);              *)
(*  - timing bookkeeping is absent.                                        *)
(***************************************************************************)
EXTENDS Naturals, Sequences, FiniteSets, TLC, Json, IOUtils

G == JsonDeserialize(IOEnv.GRAPH)

Rng(s) == {s[k] : k \in DOMAIN s}

N        == G.n
Ids      == 1..N
Disc(i)  == G.disc[i]
Kind(i)  == G.kind[i]          \* "real" | "nop" | "also"
Prio(i)  == G.prio[i]
InitIds  == Rng(G.init)
Also(i)  == Rng(G.also[i])      \* ids completed together with i
Creates(i) == Rng(G.creates[i]) \* ids handle_success(i) inserts (incl. their also-completes)
Skips(i)   == Rng(G.skips[i])   \* ids handle_success(i) completes on the main thread (emit_to_binary = false)
Rewrites(i) == G.rewrites[i]    \* sequence of [id |-> j, read |-> access, must |-> BOOLEAN]
Before(i)  == Rng(G.before[i])  \* jobs whose exec must have finished before i's exec starts
InitRead(i) == G.read[i]        \* [k |-> "None"|"Unknown"|"All"|"Set", vs |-> <<discs>>, ss |-> <<ids>>]
Discs    == {Disc(i) : i \in Ids}
Fails    == Rng(G.fails)        \* fault injection: jobs whose exec returns Err
Panics   == Rng(G.panics)       \* fault injection: jobs whose exec panics
\* dataflow (C01): items 1..G.nitems; Reads(j)/Writes(j) = items job j's exec reads / writes (observed);
\* CanonRf(j)[k] = the job whose write the k-th read of j sees in the canonical (sequential) build, 0 = none
HasFlow  == "nitems" \in DOMAIN G
Items    == IF HasFlow THEN 1..G.nitems ELSE {}
ReadsOf(j)  == IF HasFlow THEN G.reads[j] ELSE <<>>
WritesOf(j) == IF HasFlow THEN Rng(G.writes[j]) ELSE {}
CanonRf(j)  == IF HasFlow THEN G.canonrf[j] ELSE <<>>
AnyFault == IF "anyfault" \in DOMAIN G THEN G.anyfault ELSE FALSE
                                \* fault injection: any one job may fail or panic (at most one fault)

VARIABLES
  pending,   \* DOMAIN of jobs_pending
  racc,      \* racc[i]: current read_access of job i
  launched,  \* jobs with running = true
  count,     \* count_pending[disc]
  succ,      \* success set
  jobCount,  \* job_count
  queue,     \* run queue: launched, closure not yet popped it
  active,    \* exec in progress
  decd,      \* exec returned and (if ok) counters decremented; message not yet sent
  finished,  \* every job whose exec has returned (history)
  bad,       \* jobs whose exec returned Err / panicked
  chan,      \* completion channel, FIFO of ids
  mainPc,    \* "loop" | "recv" | "drain" | "handle" | "done" | "unable" | "err"
  batch,     \* successes to pass to handle_success, in order
  sawErr,    \* read_completions has seen an Err in this call
  abort,     \* abort_queued_jobs
  err,       \* "none" or the text of a scheduler panic
  lastw,     \* lastw[x]: the job whose exec last wrote item x (0 = nobody yet)
  rfbad      \* history: some exec started while an item it reads held a non-canonical version

Flow == <<lastw, rfbad>>

vars == <<pending, racc, launched, count, succ, jobCount, queue, active, decd,
          finished, bad, chan, mainPc, batch, sawErr, abort, err, lastw, rfbad>>

-----------------------------------------------------------------------------
(* Access::check and can_run / is_dep_fulfilled (workload.rs:477-537) *)

DepFulfilledV(d) == IF d \in DOMAIN count THEN count[d] = 0 ELSE TRUE
DepFulfilledS(i) == i \notin pending

CanRun(j) ==
  LET a == racc[j] IN
  CASE a.k = "None"    -> TRUE
    [] a.k = "Unknown" -> FALSE
    [] a.k = "All"     -> pending \ {j} = {}
    [] a.k = "Set"     -> /\ \A d \in Rng(a.vs) : DepFulfilledV(d)
                          /\ \A i \in Rng(a.ss) : DepFulfilledS(i)

Launchable == {j \in pending : Kind(j) # "also" /\ j \notin launched /\ CanRun(j)}

InFlight == queue \cup active \cup decd

-----------------------------------------------------------------------------
Init ==
  /\ pending = InitIds
  /\ racc = [i \in Ids |-> InitRead(i)]
  /\ launched = {}
  /\ count = [d \in Discs |-> Cardinality({i \in InitIds : Disc(i) = d})]
  /\ succ = {}
  /\ jobCount = Cardinality(InitIds)
  /\ queue = {} /\ active = {} /\ decd = {} /\ finished = {} /\ bad = {}
  /\ chan = <<>>
  /\ mainPc = "loop"
  /\ batch = <<>>
  /\ sawErr = FALSE
  /\ abort = FALSE
  /\ err = "none"
  /\ lastw = [x \in Items |-> 0]
  /\ rfbad = FALSE

-----------------------------------------------------------------------------
(* Main thread *)

\* exec loop head: `while self.success.len() < self.job_count`
LoopExit ==
  /\ mainPc = "loop" /\ err = "none"
  /\ Cardinality(succ) >= jobCount
  /\ mainPc' = "done"
  /\ err' = IF Cardinality(succ) # jobCount THEN "No errors but only n/m succeeded"
            ELSE IF \E d \in Discs : count[d] # 0 THEN "Not all counts by discriminant are 0"
            ELSE "none"
  /\ UNCHANGED <<pending, racc, launched, count, succ, jobCount, queue, active, decd,
                 finished, bad, chan, batch, sawErr, abort>>
  /\ UNCHANGED Flow

\* mark a set of jobs running and queue them (workload.rs:630-662)
LaunchSet(L) ==
  /\ launched' = launched \cup L
  /\ queue' = queue \cup L

\* update_launchable + launch everything launchable, or give up (workload.rs:609-662)
Wave ==
  /\ mainPc = "loop" /\ err = "none"
  /\ Cardinality(succ) < jobCount
  /\ IF Launchable = {} /\ (launched \cap pending) = {}
       THEN /\ mainPc' = "unable"
            /\ UNCHANGED <<launched, queue>>
       ELSE /\ LaunchSet(Launchable)
            /\ mainPc' = "recv"
  /\ sawErr' = FALSE
  /\ UNCHANGED <<pending, racc, count, succ, jobCount, active, decd, finished, bad, chan,
                 batch, abort, err>>
  /\ UNCHANGED Flow

\* one message taken off the channel by read_completions (workload.rs:796-851)
TakeMsg(j) ==
  /\ IF j \in bad
       THEN /\ sawErr' = TRUE
            /\ batch' = batch
            /\ err' = err
       ELSE /\ sawErr' = sawErr
            /\ IF j \in succ \/ j \in Rng(batch)
                 THEN /\ err' = "Repeat signals for completion"
                      /\ batch' = batch
                 ELSE /\ err' = err
                      /\ batch' = Append(batch, j)

RecvFirst ==
  /\ mainPc = "recv" /\ err = "none"
  /\ chan # <<>>
  /\ TakeMsg(Head(chan))
  /\ chan' = Tail(chan)
  /\ mainPc' = "drain"
  /\ UNCHANGED <<pending, racc, launched, count, succ, jobCount, queue, active, decd,
                 finished, bad, abort>>
  /\ UNCHANGED Flow

Drain ==
  /\ mainPc = "drain" /\ err = "none"
  /\ chan # <<>>
  /\ TakeMsg(Head(chan))
  /\ chan' = Tail(chan)
  /\ UNCHANGED <<pending, racc, launched, count, succ, jobCount, queue, active, decd,
                 finished, bad, mainPc, abort>>
  /\ UNCHANGED Flow

\* try_recv found nothing more: return Err if any was seen, else handle the batch
DrainEndWith(emptyRequired) ==
  /\ mainPc = "drain" /\ err = "none"
  /\ emptyRequired => chan = <<>>
  /\ mainPc' = IF sawErr THEN "err" ELSE "handle"
  /\ UNCHANGED <<pending, racc, launched, count, succ, jobCount, queue, active, decd,
                 finished, bad, chan, batch, sawErr, abort, err>>
  /\ UNCHANGED Flow

DrainEnd == DrainEndWith(TRUE)

(* handle_success (workload.rs:386-467).  All of it runs on the main thread     *)
(* and touches only main-thread state and counter increments, so it is atomic.  *)

\* complete_one for a set of ids
CompleteErr(S, pend, suc) ==
  IF \E i \in S : i \notin pend THEN "completed but isn't pending"
  ELSE IF \E i \in S : i \in suc THEN "Multiple completions"
  ELSE "none"

SeqRewrite(rs, f) ==
  LET R[k \in 0..Len(rs)] ==
        IF k = 0 THEN f ELSE [R[k-1] EXCEPT ![rs[k].id] = rs[k].read]
  IN R[Len(rs)]

Handle ==
  /\ mainPc = "handle" /\ err = "none"
  /\ batch # <<>>
  /\ LET h     == Head(batch)
         done1 == {h} \cup Also(h)                       \* complete_one + mark_also_completed
         new   == Creates(h)                             \* add(): inserted with bookkeeping
         skip  == Skips(h)                               \* update_be_glyph_work, emit_to_binary = false
         skipAll == skip \cup UNION {Also(s) : s \in skip}
         pend1 == (pending \ done1) \cup new
         e1    == CompleteErr(done1, pending, succ)
         e2    == CompleteErr(skipAll, pend1, succ \cup done1)
         e3    == IF \E k \in DOMAIN Rewrites(h) :
                       Rewrites(h)[k].must /\ Rewrites(h)[k].id \notin pend1
                  THEN "has to be pending" ELSE "none"
         cnt1  == [d \in Discs |-> count[d] + Cardinality({i \in new : Disc(i) = d})]
         e4    == IF \E d \in Discs : cnt1[d] < Cardinality({i \in skipAll : Disc(i) = d})
                  THEN "counter underflow" ELSE "none"
     IN
       /\ err' = IF e1 # "none" THEN e1 ELSE IF e2 # "none" THEN e2
                 ELSE IF e3 # "none" THEN e3 ELSE e4
       /\ pending' = pend1 \ skipAll
       /\ succ' = succ \cup done1 \cup skipAll
       /\ jobCount' = jobCount + Cardinality(new)
       /\ count' = [d \in Discs |->
                      IF cnt1[d] >= Cardinality({i \in skipAll : Disc(i) = d})
                      THEN cnt1[d] - Cardinality({i \in skipAll : Disc(i) = d}) ELSE 0]
       /\ racc' = SeqRewrite(Rewrites(h), racc)
       /\ batch' = Tail(batch)
  /\ UNCHANGED <<launched, queue, active, decd, finished, bad, chan, mainPc, sawErr, abort>>
  /\ UNCHANGED Flow

HandleEnd ==
  /\ mainPc = "handle" /\ err = "none"
  /\ batch = <<>>
  /\ mainPc' = "loop"
  /\ UNCHANGED <<pending, racc, launched, count, succ, jobCount, queue, active, decd,
                 finished, bad, chan, batch, sawErr, abort, err>>
  /\ UNCHANGED Flow

-----------------------------------------------------------------------------
(* Worker closure (workload.rs:668-727) *)

\* `run_queue.lock().unwrap().pop()`: highest priority first, ties arbitrary
Poppable == {j \in queue : \A o \in queue : Prio(o) <= Prio(j)}

StartFrom(j, poppable, sawAbort) ==
  /\ j \in poppable
  /\ queue' = queue \ {j}
  /\ IF sawAbort
       THEN UNCHANGED active               \* "Aborting": dropped, no message is ever sent
       ELSE active' = active \cup {j}
  /\ UNCHANGED <<pending, racc, launched, count, succ, jobCount, decd, finished, bad, chan,
                 mainPc, batch, sawErr, abort, err>>
  /\ lastw' = lastw
  /\ rfbad' = (rfbad \/ (~sawAbort /\ \E k \in DOMAIN ReadsOf(j) : lastw[ReadsOf(j)[k]] # CanonRf(j)[k]))

\* the closure loads abort_queued_jobs right after the pop
Start(j) == StartFrom(j, Poppable, abort)

Finish(j, ok, panicked) ==
  /\ j \in active
  /\ active' = active \ {j}
  /\ decd' = decd \cup {j}
  /\ finished' = finished \cup {j}
  /\ bad' = IF ok THEN bad ELSE bad \cup {j}
  /\ abort' = (abort \/ panicked)
  \* "Decrement counters immediately so all-of detection checks true before our success result
  \* has passed through the channel" -- only on success (workload.rs:711-719).  Nothing can
  \* observe the gap between exec returning and the decrement, so they are one step here;
  \* the decrement -> send window is the next action.
  /\ LET ds == {j} \cup Also(j) IN
     IF ~ok
       THEN UNCHANGED <<count, err>>
       ELSE /\ count' = [d \in Discs |->
                           IF count[d] >= Cardinality({i \in ds : Disc(i) = d})
                           THEN count[d] - Cardinality({i \in ds : Disc(i) = d}) ELSE 0]
            /\ err' = IF \E d \in Discs : count[d] < Cardinality({i \in ds : Disc(i) = d})
                      THEN "counter underflow" ELSE err
  /\ UNCHANGED <<pending, racc, launched, succ, jobCount, queue, chan, mainPc, batch, sawErr>>
  /\ lastw' = [x \in Items |-> IF ok /\ x \in WritesOf(j) THEN j ELSE lastw[x]]
  /\ rfbad' = rfbad

FinishAny(j) ==
  \/ j \notin Fails \cup Panics /\ Finish(j, TRUE, FALSE)
  \/ (j \in Fails \/ (AnyFault /\ bad = {})) /\ Finish(j, FALSE, FALSE)
  \/ (j \in Panics \/ (AnyFault /\ bad = {})) /\ Finish(j, FALSE, TRUE)

Send(j) ==
  /\ j \in decd
  /\ decd' = decd \ {j}
  /\ chan' = Append(chan, j)
  /\ UNCHANGED <<pending, racc, launched, count, succ, jobCount, queue, active, finished,
                 bad, mainPc, batch, sawErr, abort, err>>
  /\ UNCHANGED Flow

-----------------------------------------------------------------------------
Terminal == mainPc \in {"done", "unable", "err"} \/ err # "none"

\* after exec returned (or while the scope drains) workers may still run; nothing else happens
Next ==
  \/ LoopExit \/ Wave \/ RecvFirst \/ Drain \/ DrainEnd \/ Handle \/ HandleEnd
  \/ \E j \in Ids : Start(j) \/ FinishAny(j) \/ Send(j)

Spec == Init /\ [][Next]_vars

\* A reduced scheduler for larger graphs: completion messages are sent as late as possible -- a Send step
\* is taken only when nothing else can happen (which message goes first stays nondeterministic).  Every
\* behaviour of SpecLazy is a behaviour of Spec (it only removes interleavings), so an invariant violated
\* here is violated there; it stretches the decrement -> send window, the scheduler's delicate spot,
\* to its maximum while keeping the state space small enough for breadth-first search.
NonSend ==
  \/ LoopExit \/ Wave \/ RecvFirst \/ Drain \/ DrainEnd \/ Handle \/ HandleEnd
  \/ \E j \in Ids : Start(j) \/ FinishAny(j)
NextLazy == NonSend \/ (~ENABLED NonSend /\ \E j \in Ids : Send(j))

\* stuttering once everything is over, so that TLC's deadlock check finds real hangs only
Quiescent == Terminal /\ InFlight = {}
NextOrDone == Next \/ (Quiescent /\ UNCHANGED vars)
SpecD == Init /\ [][NextOrDone]_vars
SpecLazy == Init /\ [][NextLazy \/ (Quiescent /\ UNCHANGED vars)]_vars

FairSpec == Spec /\ WF_vars(Next)

-----------------------------------------------------------------------------
(* Properties *)

TypeOK ==
  /\ pending \subseteq Ids /\ launched \subseteq Ids /\ succ \subseteq Ids
  /\ queue \subseteq Ids /\ active \subseteq Ids /\ decd \subseteq Ids
  /\ mainPc \in {"loop", "recv", "drain", "handle", "done", "unable", "err"}

\* C02: no 'completed but isn't pending', 'Multiple completions', 'Repeat signals',
\* 'has to be pending', counter underflow or final-count panic
NoSchedulerPanic == err = "none"

\* C02: a valid source (no injected faults) never ends in UnableToProceed
NoUnable == (Fails \cup Panics = {} /\ ~AnyFault) => mainPc # "unable"

\* C02: ReadAfterProducer + NoConflictOverlap + StableOrder, folded: while j executes, every job
\* that touches something j touches (one of them writing) and is canonically earlier has
\* finished its exec.  (By symmetry a canonically later one cannot have started.)
OrderOK == \A j \in active : Before(j) \subseteq finished

\* C01 (Confluence): every exec sees, for each item it reads, the version written by the same job as in
\* the canonical sequential build -- so every job computes from the same inputs in every schedule
ReadsFromCanonical == ~rfbad

\* a job never executes twice / is never in two worker stages at once
StagesDisjoint ==
  /\ queue \cap active = {} /\ queue \cap decd = {} /\ active \cap decd = {}

\* counters are exact: count[d] = pending jobs of d that have not passed their decrement
Decremented == (launched \ (queue \cup active)) \ bad
CountersExact ==
  \A d \in Discs :
    count[d] = Cardinality({i \in pending : Disc(i) = d
                              /\ ~(\E o \in Decremented : i \in {o} \cup Also(o))})

\* also-complete placeholders never run
AlsoNeverRuns == \A j \in launched : Kind(j) # "also"

\* what succeeded has really run (or was skipped on the main thread, or completes with its owner)
SuccessImpliesRan ==
  \A i \in succ :
    \/ i \in finished
    \/ \E o \in succ : i \in Also(o) /\ (o \in finished \/ \E h \in succ : o \in Skips(h))
    \/ \E h \in succ : i \in Skips(h)

\* C15: on a clean finish everything succeeded
DoneMeansAll == (mainPc = "done" /\ err = "none") => (pending = {} /\ InFlight = {} /\ chan = <<>>)

\* C15: an injected failure is never swallowed
ErrorReported == (mainPc = "done") => (bad = {})

\* C15 (liveness, under FairSpec): the build always ends
Terminates == <>(Terminal)

\* C15: the main thread never blocks forever in recv() with nothing left that could send
NoHang == ~(mainPc = "recv" /\ chan = <<>> /\ InFlight = {} /\ err = "none")

CountersExactUnlessAbort == (~abort) => CountersExact

Inv ==
  /\ NoHang /\ CountersExactUnlessAbort
  /\ TypeOK /\ NoSchedulerPanic /\ NoUnable /\ OrderOK /\ StagesDisjoint /\ AlsoNeverRuns
  /\ SuccessImpliesRan /\ DoneMeansAll /\ ErrorReported

=============================================================================
