\* C17 generator: env GEN_MODE = quick | thorough, GEN_SEED = n.  One initial state per case.
\* quick: every valid sequence of 3 slot shapes (11 shapes) + every advance pattern of length 4 on 3 baselines
\*        + every pair of code point classes;  thorough: shapes^3 x advance patterns^3 + shapes^4.
INIT GenInit
NEXT GenNext
INVARIANT GenEmit
CHECK_DEADLOCK FALSE
