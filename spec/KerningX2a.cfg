\* C09 exhaustive, divergent side-1 groups: glyphs a b, 2 masters, group A on side 1 with every membership per
\* master, no side-2 groups, <= 2 entries per master and <= 3 in total, values -40, 0, 25.
SPECIFICATION Spec
CONSTANTS
    Source = "gen"
    NGlyphs = 2
    Names1 = {"A"}
    Names2 = {}
    NMasters = {2}
    DefaultAt = {"first"}
    MaxEntries = 2
    MaxTotal = 3
    PosVals = {0, 50}
    NegVals = {80}
    Den = 2
    SameBias = FALSE
INVARIANTS
    Emit
CHECK_DEADLOCK FALSE
