----------------------------- MODULE FeaInclude -----------------------------
(***************************************************************************)
(* C13, part (ii): resolution of include statements                        *)
(* (fea-rs/src/parse/context.rs).                                          *)
(*                                                                         *)
(* Files are 0..n-1, file 0 is the root, g[f] is the ordered sequence of   *)
(* files that f includes.                                                  *)
(*                                                                         *)
(* REFERENCE SEMANTICS (what the property talks about), as a state         *)
(* machine: an include stack of <<file, next include>>; including a file   *)
(* that is already on the stack is a cycle error and stops the run;        *)
(* otherwise the included file is entered.  `maxd` is the deepest stack    *)
(* seen; a run that ends with maxd >= Limit is a too-deep error            *)
(* (context.rs:20,308: the 50th file on the stack is refused); otherwise   *)
(* the result is the depth-first inlining `out`, written as f+1 on         *)
(* entering file f and -(f+1) on leaving it.  (The run is not cut at Limit *)
(* so that the check can tell by how much a graph is too deep: only graphs *)
(* at least 2 off the limit in either direction are judged at property     *)
(* level, the exact boundary is an internal observable.)                   *)
(*                                                                         *)
(* TRANSCRIPTION of what the code does (operators Validate / Gen below):   *)
(* IncludeGraph::validate is an iterative DFS with a `seen` set that       *)
(* returns "bad edges"; generate_recurse inlines every include statement   *)
(* that is not a bad edge.  It predicts the exact tree text also in the    *)
(* error cases (which statement is left in place), which is an internal    *)
(* observable, and TLC compares it with the reference semantics on every   *)
(* explored graph (design level): `agree`.                                 *)
(*                                                                         *)
(* Every explored graph is printed with both results as a REPLAY line and  *)
(* replayed into the real parse_root by `vh feaparse`.                     *)
(*                                                                         *)
(* MODE (environment):                                                     *)
(*   small   all graphs on <= NF files with <= 2 ordered includes each in  *)
(*           which every file is reachable and files are numbered in       *)
(*           first-visit order (one representative per isomorphism class), *)
(*           Limit = LIMIT                                                 *)
(*   family  chains, chains closed into a cycle, and "kites" (a shared     *)
(*           chain first included directly and then again from the end of  *)
(*           a second chain) with lengths around LIMIT                     *)
(***************************************************************************)
EXTENDS Integers, Sequences, FiniteSets, TLC, Json, IOUtils

Mode  == IOEnv.MODE
NF    == atoi(IOEnv.NF)
Limit == atoi(IOEnv.LIMIT)
Span  == atoi(IOEnv.SPAN)       \* family mode: lengths Limit-Span .. Limit+Span

VARIABLES
  id,   \* name of the case
  g,    \* the include graph
  st,   \* include stack: sequence of <<file, index of its next include>>
  out,  \* inlining so far
  maxd, \* deepest include stack so far (number of files)
  res   \* "run" | "ok" | "cycle" | "deep"

vars == <<id, g, st, out, maxd, res>>

Files(gr) == DOMAIN gr
SeqsUpTo2(S) == {<<>>} \cup {<<a>> : a \in S} \cup {<<a, b>> : a, b \in S}

\* ---- canonical small graphs: first-visit (pre-order) numbering is 0,1,2,...
RECURSIVE Visit(_, _, _, _)
\* order: files visited so far (sequence); returns the extended visiting order
Visit(gr, f, i, order) ==
  IF i > Len(gr[f]) THEN order
  ELSE LET t == gr[f][i] IN
       IF \E k \in DOMAIN order : order[k] = t
       THEN Visit(gr, f, i + 1, order)
       ELSE Visit(gr, f, i + 1, Visit(gr, t, 1, Append(order, t)))
Canonical(gr) ==
  LET n == Cardinality(Files(gr)) IN Visit(gr, 0, 1, <<0>>) = [k \in 1..n |-> k - 1]

\* cheap necessary condition evaluated first: the first file other than 0 that the root includes is 1, and
\* the first file other than 0, 1 that file 1 includes is 2
FirstNew(q, old) == IF q # <<>> /\ q[1] \notin old THEN q[1]
                    ELSE IF Len(q) = 2 /\ q[2] \notin old THEN q[2] ELSE -1
Pre(gr) == LET n == Cardinality(Files(gr)) IN
             n = 1 \/ (FirstNew(gr[0], {0}) = 1 /\ (n = 2 \/ FirstNew(gr[1], {0, 1}) \in {-1, 2}))
SmallGraphs == UNION {{gr \in [0..(n - 1) -> SeqsUpTo2(0..(n - 1))] : Pre(gr) /\ Canonical(gr)} : n \in 1..NF}

\* ---- families around the depth limit
Chain(n) == [f \in 0..(n - 1) |-> IF f < n - 1 THEN <<f + 1>> ELSE <<>>]
\* chain of n files whose last file includes file m again
ChainLoop(n, m) == [f \in 0..(n - 1) |-> IF f < n - 1 THEN <<f + 1>> ELSE <<m>>]
\* root 0 includes S1 (a chain S1..Sp = files 1..p) and then C1 (a chain C1..Cq = files p+1..p+q);
\* Cq includes S1.  Deepest stack: 0, C1..Cq, S1..Sp = 1+q+p files.
Kite(p, q) == [f \in 0..(p + q) |->
                 IF f = 0 THEN <<1, p + 1>>
                 ELSE IF f < p THEN <<f + 1>>
                 ELSE IF f = p THEN <<>>
                 ELSE IF f < p + q THEN <<f + 1>>
                 ELSE <<1>>]
Around == (Limit - Span)..(Limit + Span)
Families ==
  {<<"chain", n, 0, Chain(n)>> : n \in Around}
  \cup {<<"chainloop", n, m, ChainLoop(n, m)>> : n \in {2, 3, Limit - 2, Limit - 1, Limit, Limit + 1}, m \in {0, 1}}
  \cup {<<"kite", p, q, Kite(p, q)>> : p \in {1, (Limit \div 2) - 2, (Limit \div 2) + 2, Limit - 4},
                                        q \in {1, (Limit \div 2) - 2, (Limit \div 2) + 2, Limit - 4}}

\* ---- the reference machine
OnStack(f) == \E k \in DOMAIN st : st[k][1] = f

Init ==
  /\ \/ /\ Mode = "small"
        /\ g \in SmallGraphs
        /\ id = <<"small", 0, 0>>
     \/ /\ Mode = "family"
        /\ \E c \in Families : g = c[4] /\ id = <<c[1], c[2], c[3]>>
  /\ st = <<<<0, 1>>>> /\ out = <<1>> /\ maxd = 1 /\ res = "run"

Top == st[Len(st)]

Exit ==
  /\ res = "run" /\ Top[2] > Len(g[Top[1]])
  /\ out' = Append(out, -(Top[1] + 1))
  /\ st' = SubSeq(st, 1, Len(st) - 1)
  /\ res' = IF Len(st) > 1 THEN "run" ELSE IF maxd >= Limit THEN "deep" ELSE "ok"
  /\ UNCHANGED <<id, g, maxd>>

Include ==
  /\ res = "run" /\ Top[2] <= Len(g[Top[1]])
  /\ LET t == g[Top[1]][Top[2]] IN
       IF OnStack(t) THEN res' = "cycle" /\ UNCHANGED <<st, out, maxd>>
       ELSE /\ st' = Append([st EXCEPT ![Len(st)] = <<Top[1], Top[2] + 1>>], <<t, 1>>)
            /\ out' = Append(out, t + 1)
            /\ maxd' = IF Len(st) + 1 > maxd THEN Len(st) + 1 ELSE maxd
            /\ UNCHANGED res
  /\ UNCHANGED <<id, g>>

Next == Exit \/ Include
Spec == Init /\ [][Next]_vars

\* ---- invariants of the reference machine
StackDistinct == \A a, b \in DOMAIN st : a # b => st[a][1] # st[b][1]
StackBounded  == Len(st) <= maxd /\ maxd <= Cardinality(Files(g))
OkMeansBalanced == res = "ok" => st = <<>> /\ out[Len(out)] = -1 /\ maxd < Limit

\* ---- transcription of IncludeGraph::validate (context.rs:294-335)
\* stack entries <<node, cur_edge>> (cur_edge 0-based as in the code); bad: set of <<file, edge idx, kind>>
RECURSIVE Validate(_, _, _, _)
Validate(gr, stack, seen, bad) ==
  IF stack = <<>> THEN bad
  ELSE LET node == stack[Len(stack)][1]
           cur  == stack[Len(stack)][2]
           rest == SubSeq(stack, 1, Len(stack) - 1)
       IN IF cur >= Len(gr[node]) THEN Validate(gr, rest, seen, bad)
          ELSE LET child == gr[node][cur + 1]
                   pushed == Append(rest, <<node, cur + 1>>)
               IN IF Len(pushed) >= Limit - 1
                  THEN Validate(gr, pushed, seen, bad \cup {<<node, cur, "deep">>})
                  ELSE IF child \notin seen
                  THEN Validate(gr, IF gr[child] # <<>> THEN Append(pushed, <<child, 0>>) ELSE pushed,
                                seen \cup {child}, bad)
                  ELSE IF \E k \in DOMAIN pushed : pushed[k][1] = child
                  THEN Validate(gr, pushed, seen, bad \cup {<<node, cur, "cycle">>})
                  ELSE Validate(gr, pushed, seen, bad)

BadEdges(gr) == IF gr[0] = <<>> THEN {} ELSE Validate(gr, <<<<0, 0>>>>, {}, {})

\* ---- transcription of generate_recurse (context.rs:236-277): 0 marks "still recursing after more
\* nested files than exist" (the real code would not terminate), 1000+t an include of t left in place
RECURSIVE Gen(_, _, _, _), GenList(_, _, _, _, _)
Gen(gr, bad, f, fuel) ==
  IF fuel = 0 THEN <<0>>
  ELSE <<f + 1>> \o GenList(gr, bad, f, 1, fuel) \o <<-(f + 1)>>
GenList(gr, bad, f, i, fuel) ==
  IF i > Len(gr[f]) THEN <<>>
  ELSE (IF \E b \in bad : b[1] = f /\ b[2] = i - 1
        THEN <<1000 + gr[f][i]>>
        ELSE Gen(gr, bad, gr[f][i], fuel - 1))
       \o GenList(gr, bad, f, i + 1, fuel)

Algo == LET bad == BadEdges(g)
            s == Gen(g, bad, 0, Cardinality(Files(g)) + 1)
        IN [bad |-> bad, seq |-> s, loops |-> \E k \in DOMAIN s : s[k] = 0]

\* ---- one REPLAY line per graph, at the end of the reference run
Case ==
  LET a == Algo IN
  [id |-> id, n |-> Cardinality(Files(g)), inc |-> [f \in 1..Cardinality(Files(g)) |-> g[f - 1]],
   limit |-> Limit, maxd |-> maxd,
   ref |-> res, refseq |-> IF res = "ok" THEN out ELSE <<>>,
   abad |-> {<<b[1], b[2], b[3]>> : b \in a.bad}, aseq |-> a.seq, aloops |-> a.loops,
   \* design level: the transcription of the code implements the reference semantics
   agree |-> /\ ~a.loops
             /\ (res = "ok") = (a.bad = {})
             /\ (res = "ok" => a.seq = out)]

Emit == res # "run" => PrintT(<<"REPLAY", ToJson(Case)>>)
=============================================================================
