\* Replay of recorded builds through the table-merge loop. Success = NotAccepted violated, the others holding.
SPECIFICATION Spec
INVARIANTS NothingDropped NothingConjured NotAccepted
CHECK_DEADLOCK FALSE
