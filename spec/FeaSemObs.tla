---------------------------- MODULE FeaSemObs ----------------------------
(***************************************************************************)
(* Evaluator: reads abstract feature programs (one JSON object per line,   *)
(* fields id and p) from the file named by the environment variable CASES  *)
(* and prints, for each, the observation FeaSem!Expected predicts: which   *)
(* input strings change under which (script, language, feature set) and    *)
(* what they become.  Used for the programs picked from generators A/B/C   *)
(* and for the programs projected from the repository's own .fea files.    *)
(*                                                                         *)
(* State space: the initial states -1..-NChunks are work packets; packet k *)
(* has one successor per case i with i % NChunks = k - 1, so that TLC's    *)
(* workers evaluate different cases in parallel (the invariant of a        *)
(* successor is evaluated by the worker that generated it).                *)
(***************************************************************************)
EXTENDS FeaSem, IOUtils

Cases == ndJsonDeserialize(IOEnv.CASES)
NChunks == 64

InitObs == st \in {0 - k : k \in 1..NChunks}
NextObs == /\ st < 0
           /\ st' \in {i \in 1..Len(Cases) : (i % NChunks) + 1 = 0 - st}
EmitObs == st > 0 => PrintT(<<"REPLAY", ToJson([id |-> Cases[st].id, e |-> Expected(Cases[st].p)])>>)
=============================================================================
