\* C05 observation validation: env OBS = ndjson of `vh sfnt` records (one per compiled font).
\* One state per record (binary tree over the indices); no bounds beyond the records given.
INIT ObsInit
NEXT ObsNext
INVARIANT ObsChecked
CHECK_DEADLOCK FALSE
