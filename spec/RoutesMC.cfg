\* Exhaustive check of the route model (design level): all 5 design classes, all containers, 2^3 formatting
\* variants, both entry points, all 7 option sets (one option set per behaviour, see NextMC); results from the
\* mechanism model. History hidden by VIEW (and not extended). The state space is finite without a length bound.
SPECIFICATION SpecMC
CONSTANTS
  Classes = {"g", "gb", "gi", "u", "uk"}
  OptSets = {"default", "flatten", "keepdir", "noprod", "decompose", "tristate", "dtc"}
  FormatOps = {"indent", "keyorder", "eol"}
  MaxLen = 0
  MinCompiles = 0
  Emit = FALSE
INVARIANTS TypeOK SameFont DispatchOK
VIEW view
CHECK_DEADLOCK FALSE
