------------------------------ MODULE Rational ------------------------------
(***************************************************************************)
(* Exact rational numbers for TLC.                                         *)
(*                                                                         *)
(* A rational is a pair <<n, d>> of integers with d > 0 and gcd(|n|,d) = 1 *)
(* (so 0 is <<0,1>> and TLA+ equality `=` is numeric equality on values    *)
(* produced by the operators below).  TLC integers are 32 bit and TLC      *)
(* raises an error on overflow, so a wrong result is never silent; keep    *)
(* numerators and denominators small (the operators divide by the gcd      *)
(* before multiplying wherever that is possible).                          *)
(*                                                                         *)
(* Used by VarModel (C07); meant to be shared (C08, C16): add operators,   *)
(* do not change the meaning of the existing ones.                         *)
(***************************************************************************)
LOCAL INSTANCE Integers
LOCAL INSTANCE Sequences
LOCAL INSTANCE TLC

IAbs(i) == IF i < 0 THEN -i ELSE i
ISign(i) == IF i < 0 THEN -1 ELSE IF i > 0 THEN 1 ELSE 0

RECURSIVE GCD(_, _)
\* greatest common divisor of two naturals; GCD(0, 0) = 0
GCD(a, b) == IF b = 0 THEN a ELSE GCD(b, a % b)

\* the rational n/d for integers n, d with d # 0, normalised
R(n, d) ==
    IF d = 0 THEN Assert(FALSE, <<"Rational: zero denominator", n, d>>)
    ELSE LET g == GCD(IAbs(n), IAbs(d))
             s == IF d < 0 THEN -1 ELSE 1
         IN <<(s * n) \div g, (s * d) \div g>>

FromInt(i) == <<i, 1>>
Zero == <<0, 1>>
One == <<1, 1>>
Half == <<1, 2>>

Num(r) == r[1]
Den(r) == r[2]

IsRational(r) ==
    /\ DOMAIN r = 1..2
    /\ r[1] \in Int /\ r[2] \in Int /\ r[2] > 0
    /\ GCD(IAbs(r[1]), r[2]) = 1

IsInt(r) == r[2] = 1

Neg(r) == <<-r[1], r[2]>>

\* a + b, computed over the least common denominator to keep intermediates small
Add(a, b) ==
    IF a[2] = b[2] THEN R(a[1] + b[1], a[2])
    ELSE LET g == GCD(a[2], b[2])
             da == a[2] \div g
             db == b[2] \div g
         IN R(a[1] * db + b[1] * da, da * b[2])

Sub(a, b) == Add(a, Neg(b))

\* a * b, cross-cancelled before multiplying
Mul(a, b) ==
    IF a[1] = 0 \/ b[1] = 0 THEN Zero
    ELSE LET g1 == GCD(IAbs(a[1]), b[2])
             g2 == GCD(IAbs(b[1]), a[2])
         IN <<(a[1] \div g1) * (b[1] \div g2), (a[2] \div g2) * (b[2] \div g1)>>

Inv(a) ==
    IF a[1] = 0 THEN Assert(FALSE, <<"Rational: division by zero">>)
    ELSE IF a[1] < 0 THEN <<-a[2], -a[1]>> ELSE <<a[2], a[1]>>

Div(a, b) == Mul(a, Inv(b))

\* comparisons (denominators are positive, so cross-multiplication keeps the direction)
Lt(a, b) == a[1] * b[2] < b[1] * a[2]
Le(a, b) == a[1] * b[2] <= b[1] * a[2]
Gt(a, b) == Lt(b, a)
Ge(a, b) == Le(b, a)
\* -1, 0, 1
Cmp(a, b) == LET l == a[1] * b[2]
                 r == b[1] * a[2]
             IN IF l < r THEN -1 ELSE IF l > r THEN 1 ELSE 0

Sign(a) == ISign(a[1])
AbsR(a) == <<IAbs(a[1]), a[2]>>
MinR(a, b) == IF Le(a, b) THEN a ELSE b
MaxR(a, b) == IF Ge(a, b) THEN a ELSE b

\* largest integer <= a  (TLA+ \div rounds towards minus infinity for a positive divisor)
Floor(a) == a[1] \div a[2]
Ceil(a) == -((-a[1]) \div a[2])
\* round towards zero
Trunc(a) == IF a[1] >= 0 THEN Floor(a) ELSE Ceil(a)

\* round to the nearest integer, exact halves to the even neighbour
\* (IEEE-754 roundTiesToEven = Rust f64::round_ties_even = Python round)
RoundHalfEven(a) ==
    LET f == Floor(a)
        twice == 2 * (a[1] - f * a[2])      \* 2 * fractional part * denominator, in 0 .. 2d-1
    IN IF twice < a[2] THEN f
       ELSE IF twice > a[2] THEN f + 1
       ELSE IF f % 2 = 0 THEN f ELSE f + 1

\* round to the nearest integer, exact halves away from zero (C round(), Rust f64::round)
RoundHalfAway(a) ==
    LET f == Floor(a)
        twice == 2 * (a[1] - f * a[2])
    IN IF twice < a[2] THEN f
       ELSE IF twice > a[2] THEN f + 1
       ELSE IF a[1] >= 0 THEN f + 1 ELSE f

\* exact half-way value (fractional part exactly 1/2)
IsTie(a) == a[2] = 2

\* |a - b| <= t
Within(a, b, t) == Le(AbsR(Sub(a, b)), t)

\* compact JSON form: integers as themselves, other rationals as [n, d]
RJson(a) == IF a[2] = 1 THEN a[1] ELSE a
=============================================================================
