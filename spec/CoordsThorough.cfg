\* C08 thorough generator + design-level check.
\* Mapped axes: user nodes = every subset of UVals/Den with 1..4 elements (0, .5, 1, 2, 2.5, 3.5, 4),
\* design values = every non-decreasing assignment from DVals/Den (0, .5, 1.5, 2, 3, 3.5, 4), default at every
\* node, restricted to Valid(case); plus every axis without a <map> with min <= default <= max on UVals/Den; dense user grid = every multiple of 1/4 in [min, max].
\* Plus the fixture axes from the ndjson file named by the environment variable C08_CASES (may be empty).
SPECIFICATION Spec
CONSTANTS
    Source = "all"
    UVals = {0, 1, 2, 4, 5, 7, 8}
    DVals = {0, 1, 3, 4, 6, 7, 8}
    Den = 2
    GridMul = 2
    NMin = 1
    NMax = 4
INVARIANTS
    ValidAccepted
    FvarIsUserBounds
    AvarRequiredMaps
    AvarNonDecreasing
    NormalizationAnchors
    TwoRoutesExact
    TwoRoutesQuantised
    InstancesInRange
    NormDesignRoundTrip
    OrderIndependent
    Emit
CHECK_DEADLOCK FALSE
