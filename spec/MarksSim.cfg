\* C10 seeded generator (tlc -simulate, depth 20): mode, 1-2 masters, default master first/second, .5 pattern 0..3,
\* per glyph either a typical anchor set or ANY subset of <= 3 of the 11 names
\* {top, bottom, _top, _bottom, top_1, top_2, bottom_1, entry, exit, caret_1, _3}; in the modes with categories
\* every glyph any of {base, ligature, mark, component, none} (aacute never ligature).
INIT Init
NEXT Next
CONSTANTS
    Profile = "sim"
INVARIANTS
    Property
    PairsCovered
    MarksAreGdefMarks
    NoSurprise
    Emit
CHECK_DEADLOCK FALSE
