\* Generator: all component digraphs on {a,b,c}, <= 2 components per glyph, x contour subsets (17 576 cases), plus all pairs
\* of per-master graphs with <= 1 component per glyph for a two-master source (4 096 cases).
SPECIFICATION GenSpec
INVARIANT Emit
CHECK_DEADLOCK FALSE
