\* Generator: all component digraphs on {a,b,c}, <= 2 components per glyph, x contour subsets (17 576 cases).
SPECIFICATION GenSpec
INVARIANT Emit
CHECK_DEADLOCK FALSE
