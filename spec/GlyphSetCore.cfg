\* C06 generator, exhaustive core slice (quick and thorough): glyphs {.notdef, a, b}, every present subset with a
\* real glyph (6), no public.glyphOrder + every repetition-free sequence over the 3 names (17), every
\* public.skipExportGlyphs; no components, every glyph has a contour and its own codepoint (U+0061 on .notdef,
\* U+0062 on a, U+1F600 on b), default flags.  408 sources.
CONSTANTS
    NameSeq <- Names3
    Pool <- Pool3
    MaxComps = 0
    MaxCps = 1
    PresentMode = "all"
    OrderMode = "all"
    SkipMode = "all"
    CompMode = "none"
    ContourMode = "true"
    CpMode = "own"
    OptMode = "default"
    RouteMode = "ufo"
    Sampling = FALSE
INIT Init
NEXT Next
INVARIANTS TypeOk P_GlyphSet P_NotdefFirst P_DeclaredOrder P_DerivedLast P_NonExportNowhere P_Cmap P_Post Emit
CHECK_DEADLOCK FALSE
