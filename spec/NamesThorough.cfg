\* C18 generator + design-level check, thorough tier (full pools; Names.tla "pools"):
\*  fallback: familyName(3) x styleName(7) x styleMapFamilyName(4) x styleMapStyleName(5) x preferred family(3) x
\*            preferred subfamily(4) x {no other field, every other field}                                    = 10080 cases
\*  tail:     unique id(3) x version(4) x postscript name(3) x postscriptFullName(2) x versionMajor(3) x
\*            versionMinor(4) x 4 families                                                                    = 3456
\*  inst:     0..2 instances, name in 6 tokens x location in 3 x postscript name in 2, 4 families, 1 and 2 axes,
\*            with and without feature-code names                                                             = 21328
\*  inst3:    3 instances, name in 4 tokens x 2 locations, postscript names none/first/last/all, 2 families     = 4096
\*  axesfea:  as in the quick tier                                                                            = 954
\*  cvparams: cv01 labels (1..2 of 3 strings) x cv02 labels (1..3 of 3 strings) x cv03 {none, 3 lists} x 4 combinations
\*            of {feature UI labels, ss01+ss02 names, variable / static}                                       = 7488
SPECIFICATION Spec
CONSTANTS
    Slices = {"fallback", "tail", "inst", "inst3", "axesfea", "cvparams"}
    Tier = "thorough"
INVARIANTS
    RefsResolve
    ReservedOnlyWhereAllowed
    StringsFromSource
    AllocDense
    NoEmptyRecords
    LegacyNames
    Typographic
    StaticHasNoFvar
    Emit
CHECK_DEADLOCK FALSE
