---------------------------- MODULE InstancingObs ----------------------------
(***************************************************************************)
(* C03 / C04 observation mode: the acceptance relation of Instancing.tla   *)
(* evaluated on observations of real compiled fonts.                       *)
(*                                                                         *)
(* Environment: OBS = ndjson file, one record per font (see Part 1 of      *)
(* Instancing.tla for the fields; `check` = "outline" | "metrics" selects  *)
(* the relation).  One state per record (root -> 8 groups -> records, so   *)
(* that the workers share them); the invariant prints one VERDICT line per *)
(* record: the set of failures.  Failure kinds starting with "drift-" are  *)
(* internal observables, "note-" are statistics, everything else is a      *)
(* failure of the property on that font.                                   *)
(***************************************************************************)
EXTENDS Instancing

Rec == ndJsonDeserialize(IOEnv.OBS)
NGroups == 8

ObsInit == st = <<"root">>
ObsNext == \/ /\ st = <<"root">>
              /\ st' \in {<<"grp", i>> : i \in 0..(NGroups - 1)}
           \/ /\ st[1] = "grp"
              /\ st' \in {<<"rec", k>> : k \in {k2 \in 1..Len(Rec) : k2 % NGroups = st[2]}}

VerdictOf(rec) == [id |-> rec.id,
                   fails |-> IF rec.check = "metrics" THEN MetricsAllFails(rec) ELSE OutlineFails(rec)]
Verdict == st[1] = "rec" => PrintT(<<"VERDICT", ToJson(VerdictOf(Rec[st[2]]))>>)
=============================================================================
