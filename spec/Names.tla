------------------------------- MODULE Names -------------------------------
(***************************************************************************)
(* C18: names referenced from other tables exist and say what the source   *)
(* says.                                                                   *)
(*                                                                         *)
(* What is written down here (the *intended* rules, with the place in      *)
(* googlefonts/fontc that implements them):                                *)
(*   NB          the name-builder fallback chain for name ids 1-6, 16, 17  *)
(*               ufo2fontir/src/source.rs `names()` (which fontinfo field  *)
(*               feeds which id) + fontir/src/ir.rs NameBuilder::build     *)
(*               (the ufo2ft fallback rules the comments cite)             *)
(*   Alloc       name ids for axis labels / instance names / instance      *)
(*               PostScript names from 256 upward, one id per distinct     *)
(*               string, the default instance re-using id 2 or 17          *)
(*               fontir/src/ir/static_metadata.rs StaticMetadata::new      *)
(*   Fvar, Stat  which id every fvar / STAT field refers to                *)
(*               fontbe/src/fvar.rs, fontbe/src/stat.rs                    *)
(*   Fea         names supplied by feature code (`featureNames`,           *)
(*               `cvParameters`, `sizemenuname`, `table STAT`, `table      *)
(*               name`) are numbered after everything fontc allocated      *)
(*               fea-rs/src/compile/output.rs remap_name_ids,              *)
(*               fontbe/src/features.rs, fontbe/src/name.rs                *)
(*                                                                         *)
(* One state per naming configuration (a "case").  `x` carries the case    *)
(* and the model font derived from it.  The invariants are the property,   *)
(* checked by TLC on the model for every enumerated case; `Emit` prints    *)
(* the case + expected observation as a REPLAY line, which checks/c18.py   *)
(* materialises as UFO/designspace sources, compiles with the real         *)
(* compiler in four OS processes and compares (vh names).                  *)
(*                                                                         *)
(* Strings are sequences of words (<<"Mini","Black">> is "Mini Black");    *)
(* None = the field is missing in fontinfo.plist, <<>> = the field is      *)
(* present and the empty string.  Assumptions of this encoding: words are  *)
(* ASCII letters/digits/'-'/'.' (nothing normalize_for_postscript would    *)
(* delete), single spaces, RIBBI style names are spelled in title case.    *)
(***************************************************************************)
EXTENDS Integers, Sequences, FiniteSets, TLC, Json, IOUtils

CONSTANTS
    Slices,    \* which families of cases: subset of {"fallback", "tail", "inst", "inst3", "axesfea", "cvparams"}
    Tier       \* "quick" | "thorough": sizes of the pools (see the .cfg headers)

VARIABLES c, x
vars == <<c, x>>

\* the version fontc stamps into name id 5 (fontbe/src/name.rs stamp_compiler_version); `vh names --version`
FontcVersion == IOEnv.FONTC_VERSION

(***************************************************************************)
(* Strings                                                                 *)
(***************************************************************************)
None == <<"~">>
Has(v) == v # None
NonEmpty(v) == Has(v) /\ v # <<>>

RECURSIVE Join(_, _)
Join(ws, sep) == IF ws = <<>> THEN ""
                 ELSE IF Len(ws) = 1 THEN ws[1]
                 ELSE ws[1] \o sep \o Join(Tail(ws), sep)
Str(v) == Join(v, " ")          \* the string itself
Glue(v) == Join(v, "")          \* .replace(" ", "")
Show(v) == IF v = None THEN "~" ELSE Str(v)

Pad3(n) == IF n < 10 THEN "00" \o ToString(n) ELSE IF n < 100 THEN "0" \o ToString(n) ELSE ToString(n)

RECURSIVE Dedup(_)
\* distinct elements in order of first occurrence
Dedup(s) == IF s = <<>> THEN <<>>
            ELSE LET d == Dedup(SubSeq(s, 1, Len(s) - 1))
                     e == s[Len(s)]
                 IN IF \E i \in 1..Len(d) : d[i] = e THEN d ELSE Append(d, e)
IndexOf(s, e) == CHOOSE i \in 1..Len(s) : s[i] = e
RECURSIVE Flat(_)
Flat(ss) == IF ss = <<>> THEN <<>> ELSE Head(ss) \o Flat(Tail(ss))
Range(s) == {s[i] : i \in 1..Len(s)}

(***************************************************************************)
(* (a) The name builder                                                    *)
(***************************************************************************)
\* "regular", "bold", "italic", "bold italic": the only values fontinfo.plist allows for styleMapStyleName
SmsTitle(s) == CASE s = "regular" -> <<"Regular">>
                 [] s = "bold" -> <<"Bold">>
                 [] s = "italic" -> <<"Italic">>
                 [] s = "bold italic" -> <<"Bold", "Italic">>
                 [] OTHER -> None
Ribbi == {<<"Regular">>, <<"Bold">>, <<"Italic">>, <<"Bold", "Italic">>}
RibbiStrings == {"Regular", "Bold", "Italic", "Bold Italic"}

\* which fontinfo field feeds which name id before any fallback (ufo2fontir names()):
\*  1 <- styleMapFamilyName, 2 <- styleMapStyleName, 3 <- openTypeNameUniqueID, 5 <- openTypeNameVersion,
\*  6 <- postscriptFontName, 16 <- openTypeNamePreferredFamilyName else familyName,
\*  17 <- openTypeNamePreferredSubfamilyName else styleName.  postscriptFullName feeds nothing in `name`
\*  (ufo2ft: name id 4 is always "preferred family + preferred subfamily").
Raw(s) == [n1 |-> s.smf, n2 |-> SmsTitle(s.sms), n3 |-> s.uid, n5 |-> s.ver, n6 |-> s.psn,
           n16 |-> IF Has(s.pf) THEN s.pf ELSE s.fam,
           n17 |-> IF Has(s.psub) THEN s.psub ELSE s.sty]

\* NameBuilder::build.  Result: the final string per id, "" = no record.
NB(s) ==
  LET r == Raw(s)
      \* legacy subfamily (2): the source's; else the typographic one if it is RIBBI; else "Regular", and
      \* then the non-RIBBI style goes into the legacy family name
      fbSub == IF Has(r.n17) THEN r.n17 ELSE <<"Regular">>
      ribbi == fbSub \in Ribbi
      n2 == IF Has(r.n2) THEN r.n2 ELSE IF ribbi THEN fbSub ELSE <<"Regular">>
      suffix == IF Has(r.n2) \/ ribbi \/ fbSub = <<>> THEN None ELSE fbSub
      \* legacy family (1): the source's; else typographic family (default "New Font") + " " + suffix
      base == IF Has(r.n16) THEN r.n16 ELSE <<"New", "Font">>
      n1w == IF Has(r.n1) THEN r.n1 ELSE IF Has(suffix) THEN base \o suffix ELSE base
      n1s == IF ~Has(r.n1) /\ base = <<>> /\ Has(suffix) THEN " " \o Str(suffix) ELSE Str(n1w)
      \* typographic names fall back to the legacy ones
      n16 == IF Has(r.n16) THEN r.n16 ELSE n1w
      n17 == IF Has(r.n17) THEN r.n17 ELSE n2
      \* version (5): "Version M.mmm"
      vmaj == IF s.vmaj < 0 THEN 0 ELSE s.vmaj
      vmin == IF s.vmin < 0 THEN 0 ELSE s.vmin
      n5 == IF Has(r.n5) THEN r.n5 ELSE <<"Version", ToString(vmaj) \o "." \o Pad3(vmin)>>
      \* full name (4): typographic family + " " + typographic subfamily
      n4s == IF n16 = <<>> /\ n17 # <<>> THEN " " \o Str(n17) ELSE Str(n16 \o n17)
      \* postscript name (6): family without spaces - subfamily without spaces
      n6s == IF Has(r.n6) THEN Str(r.n6)
             ELSE Glue(n16) \o (IF n17 # <<>> THEN "-" ELSE "") \o Glue(n17)
      \* unique id (3): version without "Version " ; vendor ; postscript name
      ver == IF Len(n5) >= 2 /\ n5[1] = "Version" THEN Str(Tail(n5)) ELSE Str(n5)
      n3s == IF Has(r.n3) THEN Str(r.n3) ELSE ver \o ";NONE;" \o n6s
      \* typographic names are dropped when both repeat the legacy names
      drop == n1s = Str(n16) /\ Str(n2) = Str(n17)
  IN [n1 |-> n1s, n2 |-> Str(n2), n3 |-> n3s, n4 |-> n4s, n5 |-> Str(n5), n6 |-> n6s,
      n16 |-> IF drop THEN "" ELSE Str(n16), n17 |-> IF drop THEN "" ELSE Str(n17)]

\* Where the rule is documented unambiguously (code comments + the ufo2ft functions they cite):
\* no naming field is an explicit empty string and the family / style are given by at least one field.
\* Elsewhere (explicit empty strings, everything missing) fontc and ufo2ft resolve differently or the
\* comments say nothing; the transcription above is then only an *internal* expectation (DRIFT on mismatch).
DocFamily(s) == /\ \A f \in {s.fam, s.sty, s.smf, s.pf, s.psub} : f # <<>>
                /\ Has(s.fam) \/ Has(s.pf)
                /\ Has(s.sty) \/ Has(s.psub)
DocIds(s) == (IF DocFamily(s) THEN {1, 2, 4, 16, 17} ELSE {})
             \cup (IF s.ver # <<>> THEN {5} ELSE {})
             \cup (IF NonEmpty(s.psn) \/ (~Has(s.psn) /\ DocFamily(s)) THEN {6} ELSE {})
             \cup (IF NonEmpty(s.uid) \/ (~Has(s.uid) /\ s.ver # <<>> /\ (NonEmpty(s.psn) \/ (~Has(s.psn) /\ DocFamily(s))))
                   THEN {3} ELSE {})

Stamp(v) == IF v = "" THEN "" ELSE v \o ";fontc " \o FontcVersion

\* id -> string of the builder's records (no empty ones); 5 carries the compiler stamp in the font
NBIds == {1, 2, 3, 4, 5, 6, 16, 17}
NBString(nb, i) == CASE i = 1 -> nb.n1 [] i = 2 -> nb.n2 [] i = 3 -> nb.n3 [] i = 4 -> nb.n4 [] i = 5 -> Stamp(nb.n5)
                     [] i = 6 -> nb.n6 [] i = 16 -> nb.n16 [] i = 17 -> nb.n17
NBTable(nb) == [i \in {j \in NBIds : NBString(nb, j) # ""} |-> NBString(nb, i)]

(***************************************************************************)
(* (b) Axes, instances, allocation of ids >= 256                           *)
(***************************************************************************)
\* Axis::ui_label_name: the English <labelname>, else the axis name with the MutatorMath aliases expanded
AxisLabel(a) == IF a.label # "~" THEN a.label
                ELSE CASE a.name = "weight" -> "Weight" [] a.name = "width" -> "Width"
                       [] a.name = "slant" -> "Slant" [] a.name = "optical" -> "Optical Size"
                       [] a.name = "italic" -> "Italic" [] OTHER -> a.name

\* tokens in axis labels / instance names / postscript names that stand for strings of the case itself
Resolve(tok, nb, s, lbl1, dflt) ==
  LET v == CASE tok = "@N1" -> nb.n1 [] tok = "@N2" -> nb.n2 [] tok = "@N4" -> nb.n4 [] tok = "@N6" -> nb.n6
             [] tok = "@N17" -> nb.n17 [] tok = "@STY" -> Show(s.sty) [] tok = "@FAM" -> Show(s.fam)
             [] tok = "@LBL" -> lbl1 [] OTHER -> tok
  IN IF v \in {"", "~"} THEN dflt ELSE v

\* The default instance may use the existing subfamily ids (OpenType fvar: "2 or 17 only for the default
\* instance"); every other string gets one id >= 256 per distinct string, axes first, then per instance its
\* name and its postscript name.
Reuses(i, nb) == i.loc = 0 /\ i.name \in ({nb.n2, nb.n17} \ {""})
Requests(labels, insts, nb) ==
    labels \o Flat([k \in 1..Len(insts) |->
                      (IF Reuses(insts[k], nb) THEN <<>> ELSE <<insts[k].name>>)
                      \o (IF insts[k].ps # "~" THEN <<insts[k].ps>> ELSE <<>>)])
IdOf(order, str) == 255 + IndexOf(order, str)

(***************************************************************************)
(* Names supplied by feature code.  Order in which fea-rs hands out ids    *)
(* (internal): STAT (elided fallback name, then per design axis its name   *)
(* and its values), size menu name, featureNames (by tag), cvParameters   *)
(* (by tag).                                                               *)
(***************************************************************************)
FeaNames(f) ==
    (IF f.stat = "rec" THEN <<[k |-> "STAT.elidedFallbackNameID", i |-> 0, s |-> f.elided]>> ELSE <<>>)
    \o (IF f.stat # "none"
        THEN Flat([a \in 1..Len(f.statAxes) |->
               <<[k |-> "STAT.axis.nameID", i |-> a, s |-> f.statAxes[a].name]>>
               \o [v \in 1..Len(f.statAxes[a].values) |->
                     [k |-> "STAT.value.nameID", i |-> f.statAxes[a].values[v].n, s |-> f.statAxes[a].values[v].name]]])
        ELSE <<>>)
    \o (IF f.size # "~" THEN <<[k |-> "GPOS.size.nameEntry", i |-> 0, s |-> f.size]>> ELSE <<>>)
    \* stylistic sets: one name per feature; character variants: the feature's UI label, tooltip, sample text and
    \* then its N parameter labels, which OpenType wants at N *consecutive* ids from FirstParamUILabelNameID --
    \* so every label gets an id of its own even when the same string was named before
    \o [k \in 1..Len(f.sss) |-> [k |-> "GSUB." \o f.sss[k].tag \o ".uiNameID", i |-> 0, s |-> f.sss[k].name]]
    \o Flat([k \in 1..Len(f.cvs) |->
          LET cv == f.cvs[k]
              pre == "GSUB." \o cv.tag
          IN (IF cv.label # "~" THEN <<[k |-> pre \o ".featUiLabelNameID", i |-> 0, s |-> cv.label]>> ELSE <<>>)
             \o (IF cv.tip # "~" THEN <<[k |-> pre \o ".featUiTooltipTextNameID", i |-> 0, s |-> cv.tip]>> ELSE <<>>)
             \o (IF cv.sample # "~" THEN <<[k |-> pre \o ".sampleTextNameID", i |-> 0, s |-> cv.sample]>> ELSE <<>>)
             \o [j \in 1..Len(cv.params) |-> [k |-> pre \o ".paramUiLabelNameID", i |-> j, s |-> cv.params[j]]]])

(***************************************************************************)
(* The model font of a case                                                *)
(***************************************************************************)
Model(cs) ==
  LET s == cs.src
      nb == NB(s)
      variable == cs.mode = "var"
      axes0 == cs.axes
      lbl1 == IF Len(axes0) > 0
              THEN AxisLabel([axes0[1] EXCEPT !.label = Resolve(axes0[1].label, nb, s, "~", "Heft")])
              ELSE "Weight"
      axes == [k \in 1..Len(axes0) |->
                 LET a == [axes0[k] EXCEPT !.label = Resolve(axes0[k].label, nb, s, lbl1, "Heft")]
                 IN [tag |-> a.tag, name |-> a.name, label |-> a.label, ui |-> AxisLabel(a)]]
      insts == [k \in 1..Len(cs.insts) |->
                  [name |-> Resolve(cs.insts[k].name, nb, s, lbl1, "Semi"), loc |-> cs.insts[k].loc,
                   ps |-> IF cs.insts[k].ps = "~" THEN "~" ELSE Resolve(cs.insts[k].ps, nb, s, lbl1, "PS-X")]]
      \* named instances of a static font are dropped; so are axes that do not vary
      vinsts == IF variable THEN insts ELSE <<>>
      labels == IF variable THEN [k \in 1..Len(axes) |-> axes[k].ui] ELSE <<>>
      order == Dedup(Requests(labels, vinsts, nb))
      alloc == [i \in 256..(255 + Len(order)) |-> order[i - 255]]
      feaBase == 256 + Len(order)
      fea == cs.fea
      feaNames == FeaNames(fea)
      feaAlloc == [i \in feaBase..(feaBase + Len(feaNames) - 1) |-> feaNames[i - feaBase + 1].s]
      \* records from feature code win over the builder's (fontbe/src/name.rs merge_name_records)
      feaIds == (IF fea.name9 # "~" THEN {9} ELSE {}) \cup (IF fea.stat = "idn" THEN {2} ELSE {})
      nbt == NBTable(nb)
      table == [i \in feaIds \cup DOMAIN nbt \cup DOMAIN alloc \cup DOMAIN feaAlloc |->
                  IF i \in feaIds THEN (IF i = 9 THEN fea.name9 ELSE nb.n2)
                  ELSE IF i \in DOMAIN nbt THEN nbt[i]
                  ELSE IF i \in DOMAIN alloc THEN alloc[i] ELSE feaAlloc[i]]
      anyPs == \E k \in 1..Len(vinsts) : vinsts[k].ps # "~"
      fvarRefs ==
          [k \in 1..Len(labels) |-> [k |-> "fvar.axis.axisNameID", i |-> k, s |-> labels[k], lo |-> {},
                                      id |-> IdOf(order, labels[k])]]
          \o [k \in 1..Len(vinsts) |->
                LET n == vinsts[k]
                IN [k |-> "fvar.instance.subfamilyNameID", i |-> k, s |-> n.name,
                    lo |-> IF n.loc = 0 THEN {j \in {2, 17} : j \in DOMAIN table /\ table[j] = n.name} ELSE {},
                    id |-> IF Reuses(n, nb) THEN (IF n.name = nb.n2 THEN 2 ELSE 17) ELSE IdOf(order, n.name)]]
          \o [k \in 1..Len(vinsts) |->
                LET n == vinsts[k]
                IN [k |-> "fvar.instance.postScriptNameID", i |-> k, s |-> n.ps, lo |-> {6},
                    id |-> IF n.ps = "~" THEN 65535 ELSE IdOf(order, n.ps)]]
      statRefs ==
          IF fea.stat = "none"
          THEN IF variable
               THEN [k \in 1..Len(labels) |-> [k |-> "STAT.axis.nameID", i |-> k, s |-> labels[k], lo |-> {},
                                               id |-> IdOf(order, labels[k])]]
                    \o <<[k |-> "STAT.elidedFallbackNameID", i |-> 0, s |-> nb.n2, lo |-> {2, 17}, id |-> 2]>>
               ELSE <<>>
          ELSE IF fea.stat \in {"id", "idn"}
               THEN <<[k |-> "STAT.elidedFallbackNameID", i |-> 0, s |-> nb.n2, lo |-> {2, 17}, id |-> 2]>>
               ELSE <<>>
      feaRefs == [k \in 1..Len(feaNames) |->
                    [k |-> feaNames[k].k, i |-> feaNames[k].i, s |-> feaNames[k].s,
                     lo |-> IF feaNames[k].k = "STAT.elidedFallbackNameID" THEN {2, 17} ELSE {},
                     id |-> feaBase + k - 1]]
      \* Where the code looks the default instance's name up in a HashMap of all names
      \* (static_metadata.rs `names.iter().find_map`): the outcome is order dependent iff the string sits
      \* under an id in {2,17} and under another reserved id.  The intended rule above does not iterate.
      holders(n) == {j \in DOMAIN nbt : (IF j = 5 THEN nb.n5 ELSE nbt[j]) = n}
      sens == \E k \in 1..Len(vinsts) :
                 /\ vinsts[k].loc = 0
                 /\ holders(vinsts[k].name) \cap {2, 17} # {}
                 /\ holders(vinsts[k].name) \ {2, 17} # {}
      \* a default instance whose name is held by a reserved id other than 2/17 (and not by 2/17)
      shadow == {j \in 1..255 : \E k \in 1..Len(vinsts) :
                    vinsts[k].loc = 0 /\ j \in holders(vinsts[k].name) \ {2, 17}}
  IN [src |-> [fam |-> Show(s.fam), sty |-> Show(s.sty), smf |-> Show(s.smf), sms |-> s.sms, pf |-> Show(s.pf),
               psub |-> Show(s.psub), uid |-> Show(s.uid), ver |-> Show(s.ver), psn |-> Show(s.psn),
               psfull |-> Show(s.psfull), vmaj |-> s.vmaj, vmin |-> s.vmin],
      slice |-> cs.slice, mode |-> cs.mode, axes |-> axes, insts |-> insts, fea |-> fea,
      names |-> nb, doc |-> DocIds(s), table |-> table, alloc |-> alloc, feaAlloc |-> feaAlloc,
      refs |-> fvarRefs \o statRefs \o feaRefs, anyPs |-> anyPs,
      sens |-> sens, shadow |-> shadow, variable |-> variable]

(***************************************************************************)
(* The enumerated configurations                                           *)
(***************************************************************************)
Thorough == Tier = "thorough"

\* --- pools (quick tier: reduced pools; thorough: the full ones)
FamFull == IF Thorough
           THEN [fam : {None, <<>>, <<"Mini">>},
                 sty : {None, <<>>, <<"Regular">>, <<"Bold">>, <<"Italic">>, <<"Bold", "Italic">>, <<"Black">>},
                 smf : {None, <<>>, <<"Mini">>, <<"Mini", "Map">>},
                 sms : {"~", "regular", "bold", "italic", "bold italic"},
                 pf : {None, <<>>, <<"Mini", "Pref">>},
                 psub : {None, <<>>, <<"Bold">>, <<"Display">>}]
           ELSE [fam : {None, <<>>, <<"Mini">>},
                 sty : {None, <<>>, <<"Regular">>, <<"Bold">>, <<"Italic">>, <<"Bold", "Italic">>, <<"Black">>},
                 smf : {None, <<>>, <<"Mini", "Map">>},
                 sms : {"~", "regular", "bold italic"},
                 pf : {None, <<"Mini", "Pref">>},
                 psub : {None, <<>>, <<"Display">>}]
TailFull == [uid : {None, <<>>, <<"UID-7">>},
             ver : {None, <<>>, <<"Version", "2.5">>, <<"7.1">>},
             psn : {None, <<>>, <<"MiniPS-Custom">>},
             psfull : IF Thorough THEN {None, <<"Mini", "Full", "PS">>} ELSE {None},
             vmaj : IF Thorough THEN {-1, 1, 2} ELSE {-1, 2},
             vmin : IF Thorough THEN {-1, 0, 5, 1234} ELSE {-1, 5, 1234}]
TailNone == [uid |-> None, ver |-> None, psn |-> None, psfull |-> None, vmaj |-> 1, vmin |-> 0]
TailAll == [uid |-> <<"UID-7">>, ver |-> <<"Version", "2.5">>, psn |-> <<"MiniPS-Custom">>,
            psfull |-> <<"Mini", "Full", "PS">>, vmaj |-> 2, vmin |-> 5]

Fam(fam, sty, smf, sms, pf, psub) == [fam |-> fam, sty |-> sty, smf |-> smf, sms |-> sms, pf |-> pf, psub |-> psub]
\* representative families: RIBBI; non-RIBBI (1 = "Mini Black", 16/17 kept); style-mapped Bold;
\* family string = style string (1 = 2); all four ids different; 2 = 17 while 1 # 16; nothing given at all
FamRibbi == Fam(<<"Mini">>, <<"Regular">>, None, "~", None, None)
FamBlack == Fam(<<"Mini">>, <<"Black">>, None, "~", None, None)
FamBoldMap == Fam(<<"Mini">>, <<"Bold">>, <<"Mini">>, "bold", None, None)
FamSame == Fam(<<"Bold">>, <<"Bold">>, None, "~", None, None)
FamPref == Fam(<<"Mini">>, <<"Regular">>, <<"Mini", "Map">>, "regular", <<"Mini", "Pref">>, <<"Display">>)
FamTypoSame == Fam(<<"Mini">>, <<"Bold">>, <<"Mini", "Map">>, "bold", None, None)
FamMissing == Fam(None, None, None, "~", None, None)

Axis(tag, name, label) == [tag |-> tag, name |-> name, label |-> label]
\* axis configurations: default names, MutatorMath alias, <labelname>, labels colliding with family / style /
\* each other
AxW == <<Axis("wght", "Weight", "~")>>
AxAlias == <<Axis("wght", "weight", "~")>>
AxLabel == <<Axis("wght", "Weight", "Heft")>>
AxFamily == <<Axis("wght", "Weight", "@N1")>>
AxStyle == <<Axis("wght", "Weight", "@N2")>>
AxWW == <<Axis("wght", "Weight", "~"), Axis("wdth", "width", "~")>>
AxWWSame == <<Axis("wght", "Weight", "~"), Axis("wdth", "Width", "@LBL")>>
AxWWLabel == <<Axis("wght", "Weight", "Heft"), Axis("wdth", "Width", "@N4")>>
AxisConfigs == {AxW, AxAlias, AxLabel, AxFamily, AxStyle, AxWW, AxWWSame, AxWWLabel}

Inst(name, loc, ps) == [name |-> name, loc |-> loc, ps |-> ps]

SS(tag, name) == [tag |-> tag, name |-> name]
CV(tag, label, tip, sample, params) == [tag |-> tag, label |-> label, tip |-> tip, sample |-> sample, params |-> params]
CV1 == CV("cv01", "CV Label", "CV Tip", "CV Sample", <<"CV Param One", "CV Param Two">>)
FeaBase == [sss |-> <<>>, name9 |-> "~", name2 |-> "~", cvs |-> <<>>, size |-> "~", stat |-> "none", elided |-> "~",
            statAxes |-> <<>>]
FeaNone == FeaBase
FeaSS == [FeaBase EXCEPT !.sss = <<SS("ss01", "Alt")>>, !.name9 = "Designer"]
FeaSSLabel == [FeaBase EXCEPT !.sss = <<SS("ss01", "@LBL")>>, !.name9 = "Designer"]
FeaCV == [FeaBase EXCEPT !.sss = <<SS("ss01", "Alt")>>, !.cvs = <<CV1>>]
FeaSize == [FeaBase EXCEPT !.size = "Size Menu"]
StatAxesFor(axes) == [k \in 1..Len(axes) |->
    [tag |-> axes[k].tag, name |-> "Fea " \o axes[k].tag,
     values |-> IF k = 1 THEN <<[n |-> 1, value |-> 400, name |-> "Fea Regular", elidable |-> TRUE],
                                [n |-> 2, value |-> 700, name |-> "Fea Bold", elidable |-> FALSE]>>
                ELSE <<[n |-> 3, value |-> 100, name |-> "Fea Normal", elidable |-> TRUE]>>]]
FeaStat(kind, axes) == [FeaBase EXCEPT !.stat = kind, !.elided = IF kind = "rec" THEN "Fea Elided" ELSE "~",
                                        !.statAxes = StatAxesFor(axes)]
FeaAll(axes) == [FeaStat("rec", axes) EXCEPT !.sss = <<SS("ss01", "Alt")>>, !.name9 = "Designer", !.cvs = <<CV1>>,
                                              !.size = "Size Menu"]
FeaVariants(axes) == {FeaNone, FeaSS, FeaSSLabel, FeaCV, FeaSize, FeaStat("rec", axes), FeaStat("id", axes),
                      FeaStat("idn", axes), FeaAll(axes)}

Src(f, t) == [fam |-> f.fam, sty |-> f.sty, smf |-> f.smf, sms |-> f.sms, pf |-> f.pf, psub |-> f.psub,
              uid |-> t.uid, ver |-> t.ver, psn |-> t.psn, psfull |-> t.psfull, vmaj |-> t.vmaj, vmin |-> t.vmin]
Case(sl, src, mode, axes, insts, fea) ==
    [slice |-> sl, src |-> src, mode |-> mode, axes |-> axes, insts |-> insts, fea |-> fea]
Seqs(S, lo, hi) == UNION {[1..n -> S] : n \in lo..hi}

\* --- slice "fallback": every presence pattern of the six family/style fields x {nothing else, everything else}
CasesFallback == {Case("fallback", Src(f, t), "ufo", <<>>, <<>>, FeaNone) : f \in FamFull, t \in {TailNone, TailAll}}

\* --- slice "tail": every pattern of unique id / version / postscript names / version numbers
CasesTail == {Case("tail", Src(f, t), "ufo", <<>>, <<>>, FeaNone) :
                 f \in (IF Thorough THEN {FamRibbi, FamBlack, FamPref, FamMissing} ELSE {FamBlack, FamMissing}),
                 t \in TailFull}

\* --- slice "inst": 0..2 instances, every name / location / postscript-name choice
InstNames == {"@N1", "@N2", "@LBL", "Semi"} \cup (IF Thorough THEN {"@N4", "@N17"} ELSE {})
InstSet == {Inst(n, l, p) : n \in InstNames, l \in (IF Thorough THEN 0..2 ELSE 0..1), p \in {"~", "PS-A"}}
CasesInst == {Case("inst", Src(f, TailNone), "var", a, i, fea) :
                 f \in (IF Thorough THEN {FamRibbi, FamBlack, FamSame, FamPref} ELSE {FamRibbi, FamBlack, FamSame}),
                 a \in (IF Thorough THEN {AxW, AxWW} ELSE {AxW}), i \in Seqs(InstSet, 0, 2),
                 fea \in (IF Thorough THEN {FeaNone, FeaSS} ELSE {FeaNone})}

\* --- slice "inst3": exactly 3 instances from a small pool (repeats, order, which one sits at the default)
Inst3Names == {"@N1", "@N2", "Semi"} \cup (IF Thorough THEN {"@LBL"} ELSE {})
Inst3Set == {Inst(n, l, "~") : n \in Inst3Names, l \in 0..1}
\* postscript names on no / the first / the last / all instances ("all": the third repeats the first one's)
PsPattern(i, p) == [k \in 1..Len(i) |-> [i[k] EXCEPT !.ps = IF p = "all" \/ (p = "first" /\ k = 1)
                                                                  \/ (p = "last" /\ k = Len(i))
                                                             THEN (IF k = 3 /\ p = "all" THEN "PS-1" ELSE "PS-" \o ToString(k))
                                                             ELSE "~"]]
CasesInst3 == {Case("inst3", Src(f, TailNone), "var", AxW, PsPattern(i, p), FeaNone) :
                  f \in {FamRibbi, FamSame}, i \in Seqs(Inst3Set, 3, 3),
                  p \in (IF Thorough THEN {"none", "first", "last", "all"} ELSE {"first", "all"})}

\* --- slice "axesfea": axis configurations x feature-code variants x families, variable and static
InstReps == {<<>>, <<Inst("@N2", 0, "~"), Inst("Semi", 1, "PS-A")>>, <<Inst("@N1", 0, "~")>>,
             <<Inst("@LBL", 1, "@LBL"), Inst("@N17", 0, "~")>>}
CasesAxesFea ==
    UNION {{Case("axesfea", Src(f, TailNone), "var", a, i, fea) :
                f \in {FamRibbi, FamBlack, FamPref}, i \in InstReps, fea \in FeaVariants(a)} : a \in AxisConfigs}
    \cup {Case("axesfea", Src(f, TailNone), m, IF m = "ufo" THEN <<>> ELSE AxW,
               IF m = "ufo" THEN <<>> ELSE i, fea) :
        f \in {FamRibbi, FamBlack}, m \in {"ufo", "point"}, i \in InstReps, fea \in FeaVariants(AxW)}

\* --- slice "cvparams": two or three cvXX features whose parameter labels partly coincide (also inside one
\* feature), feature UI labels equal to a parameter label, two stylistic sets with the same name
CvLabels == {"Plain", "Dotted", "Slashed"}
Cv1Params == Seqs(CvLabels, 1, 2)
Cv2Params == IF Thorough THEN Seqs(CvLabels, 1, 3) ELSE Seqs({"Plain", "Dotted"}, 2, 3)
Cv3Params == {<<>>, <<"Dotted", "Plain">>} \cup (IF Thorough THEN {<<"Slashed">>, <<"Plain", "Plain">>} ELSE {})
\* (are the features' own UI labels distinct strings or "Plain" too?, stylistic sets, mode)
CvCombos == {<<FALSE, "none", "var">>, <<TRUE, "same", "var">>, <<FALSE, "plain", "ufo">>, <<TRUE, "none", "ufo">>}
CvFea(p1, p2, p3, combo) ==
    [FeaBase EXCEPT
       !.cvs = <<CV("cv01", IF combo[1] THEN "Plain" ELSE "Zero shape", "~", "~", p1),
                 CV("cv02", IF combo[1] THEN "Plain" ELSE "Plus shape", IF combo[1] THEN "Plain" ELSE "~", "~", p2)>>
               \o (IF p3 = <<>> THEN <<>> ELSE <<CV("cv03", "~", "~", "~", p3)>>),
       !.sss = CASE combo[2] = "none" -> <<>>
                 [] combo[2] = "same" -> <<SS("ss01", "Alternate"), SS("ss02", "Alternate")>>
                 [] combo[2] = "plain" -> <<SS("ss01", "Plain"), SS("ss02", "Dotted")>>]
CasesCv == {Case("cvparams", Src(FamRibbi, TailNone), combo[3], IF combo[3] = "var" THEN AxW ELSE <<>>, <<>>,
                 CvFea(p1, p2, p3, combo)) :
               p1 \in Cv1Params, p2 \in Cv2Params, p3 \in Cv3Params, combo \in CvCombos}

Cases == (IF "cvparams" \in Slices THEN CasesCv ELSE {})
         \cup (IF "fallback" \in Slices THEN CasesFallback ELSE {})
         \cup (IF "tail" \in Slices THEN CasesTail ELSE {})
         \cup (IF "inst" \in Slices THEN CasesInst ELSE {})
         \cup (IF "inst3" \in Slices THEN CasesInst3 ELSE {})
         \cup (IF "axesfea" \in Slices THEN CasesAxesFea ELSE {})

\* feature code may name a feature like the first axis label; `table name { nameid 2 ..}` repeats name 2
WithFea(cs) == LET nb == NB(cs.src)
                   lbl == IF Len(cs.axes) > 0
                          THEN AxisLabel([cs.axes[1] EXCEPT !.label = Resolve(cs.axes[1].label, nb, cs.src, "~", "Heft")])
                          ELSE "Weight"
               IN [cs EXCEPT !.fea.sss = [k \in 1..Len(@) |-> [@[k] EXCEPT !.name = IF @ = "@LBL" THEN lbl ELSE @]],
                             !.fea.name2 = IF cs.fea.stat = "idn" THEN nb.n2 ELSE "~"]

\* Two states per case: the case alone, then the case with its model font.  (The model is computed in the
\* next-state action, not in Init: TLC does not cache LET values while it evaluates an initial predicate.)
Init == /\ c \in Cases
        /\ x = <<>>
Next == /\ x = <<>>
        /\ x' = Model(WithFea(c))
        /\ UNCHANGED c
Spec == Init /\ [][Next]_vars
Done == x # <<>>

(***************************************************************************)
(* The property, on the model                                              *)
(***************************************************************************)
Refs == {x.refs[i] : i \in 1..Len(x.refs)}
NoName(r) == r.k = "fvar.instance.postScriptNameID" /\ r.s = "~"

\* every referenced id has a non-empty record
RefsResolve == Done => \A r \in Refs : NoName(r) \/ (r.id \in DOMAIN x.table /\ x.table[r.id] # "")
\* ids below 256 only where OpenType allows: fvar instance subfamily 2/17 (default instance only),
\* postscript name 6 or 0xFFFF, axis names never, feature parameters never
ReservedOnlyWhereAllowed == Done => \A r \in Refs : IF NoName(r) THEN r.id = 65535 ELSE (r.id < 256 => r.id \in r.lo)
\* and the record says what the source says
StringsFromSource == Done => \A r \in Refs : NoName(r) \/ (r.id \in DOMAIN x.table /\ x.table[r.id] = r.s)
\* one id per distinct string, dense from 256; feature-code names come after them and never collide
AllocDense == Done =>
              /\ \A i, j \in DOMAIN x.alloc : x.alloc[i] = x.alloc[j] => i = j
              /\ DOMAIN x.alloc \cap DOMAIN x.feaAlloc = {}
              /\ \A i \in DOMAIN x.alloc, j \in DOMAIN x.feaAlloc : i < j
\* no empty record is ever emitted
NoEmptyRecords == Done => \A i \in DOMAIN x.table : x.table[i] # ""
\* the legacy subfamily is always one of the four RIBBI names and the essential ids exist (1, 2, 5 unless
\* the version is explicitly empty)
LegacyNames == Done =>
               /\ x.names.n2 \in RibbiStrings
               /\ 5 \in x.doc => (x.names.n5 # "" /\ 5 \in DOMAIN x.table)
               /\ 1 \in x.doc => ({1, 2, 4, 6} \subseteq DOMAIN x.table \/ x.src.psn = "")
\* typographic names only ever appear/disappear together in the documented region and never repeat both legacy ones
Typographic == Done =>
               /\ 16 \in x.doc => ((x.names.n16 = "") <=> (x.names.n17 = ""))
               /\ ~(x.names.n16 = x.names.n1 /\ x.names.n17 = x.names.n2 /\ x.names.n16 # "")
\* a static font has no fvar/STAT references of its own making
StaticHasNoFvar == (Done /\ ~x.variable) =>
                       \A r \in Refs : r.k \notin {"fvar.axis.axisNameID", "fvar.instance.subfamilyNameID",
                                                   "fvar.instance.postScriptNameID"}

Emit == Done => PrintT(<<"REPLAY", ToJson(x)>>)
=============================================================================
