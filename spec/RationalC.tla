------------------------------ MODULE RationalC ------------------------------
(***************************************************************************)
(* Exact rational numbers for the Coords module (C08).                     *)
(*                                                                         *)
(* A rational is <<n, d>> with integers n, d, d > 0, gcd(|n|, d) = 1, so   *)
(* TLA+ equality is numeric equality on values built by the operators      *)
(* below.  TLC integers are 32 bit and TLC raises an error on overflow     *)
(* (never a silent wrong result).  Add/Mul cancel before multiplying;      *)
(* comparisons never multiply at all (continued-fraction comparison QCmp), *)
(* so they are safe for the large F2Dot14-scaled values.                   *)
(***************************************************************************)
LOCAL INSTANCE Integers
LOCAL INSTANCE Sequences
LOCAL INSTANCE TLC

QIAbs(i) == IF i < 0 THEN -i ELSE i

RECURSIVE QGcd(_, _)
QGcd(a, b) == IF b = 0 THEN a ELSE QGcd(b, a % b)

\* n/d for integers n, d with d # 0, normalised
Q(n, d) ==
    IF d = 0 THEN Assert(FALSE, <<"RationalC: zero denominator", n, d>>)
    ELSE LET g == QGcd(QIAbs(n), QIAbs(d))
             s == IF d < 0 THEN -1 ELSE 1
         IN <<(s * n) \div g, (s * d) \div g>>

QInt(i) == <<i, 1>>
QZero == <<0, 1>>
QOne == <<1, 1>>
QMinusOne == <<-1, 1>>

QNeg(a) == <<-a[1], a[2]>>

QAdd(a, b) ==
    IF a[2] = b[2] THEN Q(a[1] + b[1], a[2])
    ELSE LET g == QGcd(a[2], b[2])
             da == a[2] \div g
             db == b[2] \div g
         IN Q(a[1] * db + b[1] * da, da * b[2])

QSub(a, b) == QAdd(a, QNeg(b))

QMul(a, b) ==
    IF a[1] = 0 \/ b[1] = 0 THEN QZero
    ELSE LET g1 == QGcd(QIAbs(a[1]), b[2])
             g2 == QGcd(QIAbs(b[1]), a[2])
         IN <<(a[1] \div g1) * (b[1] \div g2), (a[2] \div g2) * (b[2] \div g1)>>

QInv(a) ==
    IF a[1] = 0 THEN Assert(FALSE, <<"RationalC: division by zero">>)
    ELSE IF a[1] < 0 THEN <<-a[2], -a[1]>> ELSE <<a[2], a[1]>>

QDiv(a, b) == QMul(a, QInv(b))

\* floor(a) as an integer (\div rounds towards minus infinity for a positive divisor)
QFloor(a) == a[1] \div a[2]
\* fractional part a - floor(a), in [0, 1)
QFrac(a) == <<a[1] % a[2], a[2]>>

\* Compare p/q with r/s for naturals p, r and positive q, s without multiplying:
\* compare the integer parts, then the reciprocals of the fractional parts.  -1, 0, 1.
RECURSIVE QCmpNat(_, _, _, _)
QCmpNat(p, q, r, s) ==
    LET ip == p \div q
        ir == r \div s
        fp == p % q
        fr == r % s
    IN IF ip < ir THEN -1
       ELSE IF ip > ir THEN 1
       ELSE IF fp = 0 /\ fr = 0 THEN 0
       ELSE IF fp = 0 THEN -1
       ELSE IF fr = 0 THEN 1
       ELSE -QCmpNat(q, fp, s, fr)      \* fp/q < fr/s  <=>  q/fp > s/fr

\* -1, 0, 1 for a < b, a = b, a > b; any signs, no multiplication
QCmp(a, b) ==
    LET fa == QFloor(a)
        fb == QFloor(b)
        ra == QFrac(a)
        rb == QFrac(b)
    IN IF fa < fb THEN -1
       ELSE IF fa > fb THEN 1
       ELSE QCmpNat(ra[1], ra[2], rb[1], rb[2])

QLt(a, b) == QCmp(a, b) = -1
QLe(a, b) == QCmp(a, b) # 1
QGt(a, b) == QCmp(a, b) = 1
QGe(a, b) == QCmp(a, b) # -1
QMin(a, b) == IF QLe(a, b) THEN a ELSE b
QMax(a, b) == IF QGe(a, b) THEN a ELSE b
QAbs(a) == IF a[1] < 0 THEN QNeg(a) ELSE a

\* minimum / maximum of a non-empty sequence of rationals
RECURSIVE QSeqMinFrom(_, _, _)
QSeqMinFrom(s, i, acc) == IF i > Len(s) THEN acc ELSE QSeqMinFrom(s, i + 1, QMin(acc, s[i]))
QSeqMin(s) == QSeqMinFrom(s, 2, s[1])
RECURSIVE QSeqMaxFrom(_, _, _)
QSeqMaxFrom(s, i, acc) == IF i > Len(s) THEN acc ELSE QSeqMaxFrom(s, i + 1, QMax(acc, s[i]))
QSeqMax(s) == QSeqMaxFrom(s, 2, s[1])

\* round(a * 2^bits) to the nearest integer, ties away from zero (what F2Dot14::from_f64 /
\* Fixed::from_f64 do); the result is an integer number of 2^-bits units
QRoundUnits(a, scale) ==
    LET x == QMul(a, <<scale, 1>>)              \* a * scale, exact
    IN IF x[1] >= 0 THEN QFloor(QAdd(x, <<1, 2>>))              \* floor(x + 1/2)
       ELSE -QFloor(QAdd(QNeg(x), <<1, 2>>))                    \* -floor(-x + 1/2)

=============================================================================
