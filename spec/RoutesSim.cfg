\* Long random walks (run with -simulate -depth 9, seeded by VERIF_SEED): 8 steps, >= 3 compiles, emitted at the end.
\* All option sets and formatting operations.
SPECIFICATION Spec
CONSTANTS
  Classes = {"g", "gb", "gi", "u", "uk"}
  OptSets = {"default", "flatten", "keepdir", "noprod", "decompose", "tristate", "dtc"}
  FormatOps = {"indent", "flow", "keyorder", "quote", "num", "eol"}
  MaxLen = 8
  MinCompiles = 3
  Emit = TRUE
INVARIANTS TypeOK SameFont DispatchOK EmitWalkEnd
CHECK_DEADLOCK FALSE
