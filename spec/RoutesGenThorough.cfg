\* Walk generator (thorough): every walk of <= 3 steps per design class ending in a Compile with >= 2 compiles;
\* 6 formatting operations, all 7 option sets.
SPECIFICATION Spec
CONSTANTS
  Classes = {"g", "gb", "gi", "u", "uk"}
  OptSets = {"default", "flatten", "keepdir", "noprod", "decompose", "tristate", "dtc"}
  FormatOps = {"indent", "flow", "keyorder", "quote", "num", "eol"}
  MaxLen = 3
  MinCompiles = 2
  Emit = TRUE
INVARIANTS TypeOK SameFont DispatchOK EmitWalk
CHECK_DEADLOCK FALSE
