----------------------------- MODULE FeaParseMC -----------------------------
(***************************************************************************)
(* Design-level check of the sink protocol (FeaParse.tla) on concrete byte *)
(* strings: for every valid text over a small byte alphabet with a         *)
(* two-byte character ("L" lead byte, "c" continuation byte), and every    *)
(* behaviour the guards allow (arbitrary nesting of nodes, arbitrary       *)
(* tokenisation incl. empty tokens, candidate token texts that differ from *)
(* the source, arbitrary diagnostics), TLC checks that                     *)
(*   - the concatenation of the accepted token texts is always the prefix  *)
(*     of the source consumed so far (Prefix), hence                       *)
(*   - at End the concatenation *is* the source (Lossless),                *)
(*   - every token ends on a character boundary (TokensOnChars),           *)
(*   - every accepted diagnostic lies inside the source on boundaries.     *)
(* That is the statement of property C13 derived from the local guards     *)
(* which FeaParseTrace.tla evaluates on real parse trees.                  *)
(***************************************************************************)
EXTENDS FeaParse

CONSTANTS MaxLen, MaxTok, MaxDepth, Kinds

VARIABLES text, out

mvars == <<pvars, text, out>>

Bytes == {"a", "L", "c"}
Strings(n) == [1..n -> Bytes]
\* valid UTF-8 analogue: L is always followed by c, c always preceded by L
Valid(t) == \A p \in DOMAIN t :
              /\ (t[p] = "L" => p < Len(t) /\ t[p + 1] = "c")
              /\ (t[p] = "c" => p > 1 /\ t[p - 1] = "L")
Texts == UNION {{t \in Strings(n) : Valid(t)} : n \in 0..MaxLen}

\* offset p (0..Len) is a character boundary iff the byte after it is not a continuation byte
OnChar(p) == IF p \in 0..(Len(text) - 1) THEN text[p + 1] # "c" ELSE p = Len(text)

MCInit ==
  /\ text \in Texts /\ out = <<>>
  /\ len = Len(text) /\ pos = 0 /\ stack = <<>> /\ roots = 0 /\ diags = {} /\ phase = "run"

MCStart == \E k \in Kinds : Len(stack) < MaxDepth /\ Start(k) /\ UNCHANGED <<text, out>>

\* the parser hands over a token of n bytes whose text is `tok`; the guard `same` only lets the
\* true slice through.  Token texts are strings, so they are valid in themselves.
MCToken ==
  \E k \in Kinds, n \in 0..MaxTok : \E tok \in {t \in Strings(n) : Valid(t)} :
    /\ Token(k, n, pos + n <= len /\ tok = SubSeq(text, pos + 1, pos + n))
    /\ out' = out \o tok
    /\ UNCHANGED text

MCFinish == Finish /\ UNCHANGED <<text, out>>

MCError == \E lo \in 0..(len + 1), hi \in 0..(len + 1) :
             /\ Cardinality(diags) < 2
             /\ Error(lo, hi, len, OnChar(lo), OnChar(hi))
             /\ UNCHANGED <<text, out>>

MCEnd == End /\ UNCHANGED <<text, out>>

MCNext == MCStart \/ MCToken \/ MCFinish \/ MCError \/ MCEnd
MCSpec == MCInit /\ [][MCNext]_mvars

Prefix        == out = SubSeq(text, 1, pos)
Lossless      == phase = "done" => out = text
TokensOnChars == OnChar(pos)
DiagsOnChars  == \A d \in diags : OnChar(d[1]) /\ OnChar(d[2])
\* non-vacuity: some behaviour ends, with a multi-byte character, nested nodes and a diagnostic
NeverDoneRich == ~(phase = "done" /\ Len(text) = MaxLen /\ \E p \in DOMAIN text : text[p] = "L")
=============================================================================
