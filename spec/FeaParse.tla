------------------------------ MODULE FeaParse ------------------------------
(***************************************************************************)
(* C13, part (i): the protocol between the FEA parser and its tree sink    *)
(* (fea-rs/src/token_tree.rs AstSink::{start_node, token, finish_node,     *)
(* error}, fea-rs/src/parse/parser.rs).                                    *)
(*                                                                         *)
(* The source is `len` bytes long.  The sink consumes it strictly left to   *)
(* right: every Token advances `pos` by its byte length and its text must  *)
(* be exactly the source bytes it steps over; nodes are opened and closed  *)
(* in a balanced way under one root; a diagnostic is a byte range of some  *)
(* source file (the root or an included one) of known length, with both    *)
(* ends on character boundaries.  When the parser returns, everything has  *)
(* been consumed.                                                          *)
(*                                                                         *)
(* This module is text-agnostic: whether a token's text equals the slice   *)
(* it steps over (`same`), and whether an offset is a character boundary   *)
(* (`loB`, `hiB`), are parameters.  FeaParseMC.tla instantiates them with  *)
(* concrete byte strings and checks that the local guards imply the global *)
(* statement of the property (concatenation of the token texts = input).   *)
(* FeaParseTrace.tla binds the actions to the event projection of real     *)
(* parse trees, where these facts are measured on the real strings.        *)
(***************************************************************************)
EXTENDS Integers, Sequences, FiniteSets, TLC

VARIABLES
  len,     \* byte length of the source
  pos,     \* bytes consumed so far (AstSink::text_pos)
  stack,   \* open nodes: sequence of <<kind, pos at start>>
  roots,   \* number of top-level nodes closed so far
  diags,   \* ranges reported so far: set of <<lo, hi, length of the source pointed into>>
  phase    \* "run" | "done"

pvars == <<len, pos, stack, roots, diags, phase>>

\* ---- guards (named: the trace validator reports the first one that fails)
TokenInside(n)   == n >= 0 /\ pos + n <= len
TokenInNode      == stack # <<>>
FinishBalanced   == stack # <<>>
OneRoot          == stack # <<>> \/ roots = 0          \* a second root may not be opened
RangeOrdered(lo, hi)  == lo <= hi
RangeInside(lo, hi, srcLen) == 0 <= lo /\ hi <= srcLen
RangeOnChars(loB, hiB)      == loB /\ hiB
EndConsumed      == pos = len
EndBalanced      == stack = <<>> /\ roots = 1

\* ---- actions
Reset(l) ==
  /\ len' = l /\ pos' = 0 /\ stack' = <<>> /\ roots' = 0 /\ diags' = {}
  /\ phase' = "run"

Start(kind) ==
  /\ phase = "run" /\ OneRoot
  /\ stack' = Append(stack, <<kind, pos>>)
  /\ UNCHANGED <<len, pos, roots, diags, phase>>

\* token_tree.rs:115-121: the text is text[text_pos .. text_pos+len]; text_pos += len
Token(kind, n, same) ==
  /\ phase = "run" /\ TokenInNode /\ TokenInside(n) /\ same
  /\ pos' = pos + n
  /\ UNCHANGED <<len, stack, roots, diags, phase>>

Finish ==
  /\ phase = "run" /\ FinishBalanced
  /\ stack' = SubSeq(stack, 1, Len(stack) - 1)
  /\ roots' = IF Len(stack) = 1 THEN roots + 1 ELSE roots
  /\ UNCHANGED <<len, pos, diags, phase>>

Error(lo, hi, srcLen, loB, hiB) ==
  /\ RangeOrdered(lo, hi) /\ RangeInside(lo, hi, srcLen) /\ RangeOnChars(loB, hiB)
  /\ diags' = diags \cup {<<lo, hi, srcLen>>}
  /\ UNCHANGED <<len, pos, stack, roots, phase>>

End ==
  /\ phase = "run" /\ EndConsumed /\ EndBalanced
  /\ phase' = "done"
  /\ UNCHANGED <<len, pos, stack, roots, diags>>

\* ---- invariants of the protocol
TypeOK ==
  /\ len \in Nat /\ pos \in Nat /\ roots \in Nat
  /\ phase \in {"run", "done"}
  /\ \A k \in DOMAIN stack : stack[k][2] \in 0..pos

PosInside   == pos <= len
\* open nodes started no later than their children
StackMonotone == \A k \in 1..(Len(stack) - 1) : stack[k][2] <= stack[k + 1][2]
DiagsInside == \A d \in diags : 0 <= d[1] /\ d[1] <= d[2] /\ d[2] <= d[3]
DoneMeansAll == phase = "done" => pos = len /\ stack = <<>> /\ roots = 1
=============================================================================
