\* C06 generator, exhaustive slice "components" (thorough): glyphs {.notdef, a, b} all present, 2 declared orders
\* (none, reversed), every public.skipExportGlyphs (8), every acyclic
\* component assignment with 0..2 components per glyph, own contours or not per glyph (8), own codepoints,
\* prefer-simple-glyphs on and off.
CONSTANTS
    NameSeq <- Names3
    Pool <- Pool3
    MaxComps = 2
    MaxCps = 1
    PresentMode = "full"
    OrderMode = "two"
    SkipMode = "all"
    CompMode = "all"
    ContourMode = "all"
    CpMode = "own"
    OptMode = "simple"
    RouteMode = "ufo"
    Sampling = FALSE
INIT Init
NEXT Next
INVARIANTS TypeOk P_GlyphSet P_NotdefFirst P_DeclaredOrder P_DerivedLast P_NonExportNowhere P_Cmap P_Post Emit
CHECK_DEADLOCK FALSE
