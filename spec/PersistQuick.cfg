\* all names of length <= 4 over the 11-symbol alphabet (16 105 names)
CONSTANT MaxLen = 4
SPECIFICATION Spec
INVARIANTS RoundTrip CaseCodePresent Emit
CHECK_DEADLOCK FALSE
