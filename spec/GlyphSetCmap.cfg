\* C06 generator, exhaustive slice "cmap" (thorough): glyphs {.notdef, a, b} all present, 4 declared orders,
\* every public.skipExportGlyphs (8), no components, every assignment of the codepoints {U+0061, U+0062,
\* U+1F600} with 0..2 per glyph, U+0061 possibly on two neighbouring glyphs; default flags.
CONSTANTS
    NameSeq <- Names3
    Pool <- Pool3
    MaxComps = 0
    MaxCps = 2
    PresentMode = "full"
    OrderMode = "few"
    SkipMode = "all"
    CompMode = "none"
    ContourMode = "true"
    CpMode = "all"
    OptMode = "default"
    RouteMode = "ufo"
    Sampling = FALSE
INIT Init
NEXT Next
INVARIANTS TypeOk P_GlyphSet P_NotdefFirst P_DeclaredOrder P_DerivedLast P_NonExportNowhere P_Cmap P_Post Emit
CHECK_DEADLOCK FALSE
