----------------------------- MODULE FeaParseGen -----------------------------
(***************************************************************************)
(* C13 input generator: every string of at most MaxLen lexemes over an     *)
(* alphabet of lexeme classes, joined without or with whitespace.  One     *)
(* initial state per string; the invariant Emit prints it as               *)
(*   <<"R", joiner, <<lexeme indices>>>>                                   *)
(* and the alphabet itself is printed once as <<"LEX", json>>.  Lexemes    *)
(* are written with %XX escapes for bytes that cannot be put into a TLA+   *)
(* string (checks/c13.py decodes them; the decoded byte strings are valid  *)
(* UTF-8).  The expected behaviour of the parser on these inputs is not    *)
(* computed here: it is the sink protocol of FeaParse.tla, evaluated by    *)
(* FeaParseTrace.tla on the tree the real parser returns.                  *)
(*                                                                         *)
(* With ALPHA = "rules" the states are <<template, x, y, z>>: a rule        *)
(* template whose slots X, Y, Z are filled from Items (j = 2).             *)
(*                                                                         *)
(* Strings of at most FullLen lexemes are emitted exhaustively; longer     *)
(* ones are emitted iff a seeded hash of the string is below Keep/10000    *)
(* (quick tier sampling; Keep = 10000 emits everything).                   *)
(***************************************************************************)
EXTENDS Integers, Sequences, TLC, Json, IOUtils

\* the main alphabet: 25 lexeme classes
Main == <<
  "feature", "lookup", "sub", "by", "pos", "include", "table",   \* keywords
  "a",            \* glyph name (in the glyph map)
  "a-b",          \* range-like name that is itself a glyph of the map
  "b-a",          \* range-like name that is not a glyph, both ends are: must be split
  "%5C1",         \* cid \1
  "@c",           \* glyph class name
  "1",            \* number
  "[", "]", "{", "}", "(", ")", "'", ";",
  "#x%0A",        \* comment (ended by a newline)
  "%22s%22",      \* string
  "%22u",         \* unterminated string
  "%C3%A9"        \* a two-byte character
>>

\* further classes, used for shorter strings
Extra == <<
  "<", ">", ",", "=", "-", "%5C", "$", "@", "%22", "#",
  "%00",          \* NUL is a valid UTF-8 character
  "%0D", "%09",   \* other white space
  "%EF%BB%BF",    \* three-byte character (BOM)
  "%F0%9F%98%80", \* four-byte character
  "%E2%80%A8",    \* U+2028
  "a--b", "a-b-c", "x-y", "b-", "-a",     \* more range-like names (a-b-c is ambiguous in the map)
  ".notdef", "c", "A.sc",
  "0", "07", "0x", "0x1F", "1.5", "-1", "1n",
  "anon", "markClass", "anchor", "NULL", "languagesystem", "script", "language", "ignore", "rsub", "enum",
  "from", "useExtension", "lookupflag", "RightToLeft", "dflt", "DFLT", "kern", "GDEF", "name",
  "parameters", "variation", "conditionset", "anchorDef", "valueRecordDef", "contour", "device",
  "cvParameters", "featureNames", "sizemenuname", "required", "exclude_dflt", "MarkAttachmentType"
>>

\* ---- grammar-shaped inputs (ALPHA = "rules"): a rule template with three slots filled from Items, inside
\* a feature block that follows the declarations of @c and lookup l.  Mostly error-free programs: they reach
\* the contextual-rule rewrite (marked glyphs), range splitting and validation.
Items == <<"a", "b", "a-b", "b-a", "[a b]", "[a - b]", "[b-a c]", "@c", "%5C1", "a'", "[a b]'", "@c'", "NULL", "x-y">>
Templates == <<
  "sub X by Y;", "sub X Y by Z;", "sub X from Y;", "sub X Y Z by a;", "rsub X Y Z by b;", "ignore sub X Y Z;",
  "sub X Y lookup l Z;", "pos X 10;", "pos X Y -5;", "pos X Y 5 Z;", "pos X <1 2 3 4> Y Z;", "enum pos X Y 3;",
  "pos X lookup l Y Z;", "ignore pos X Y Z;", "@d = [X Y Z];", "pos X <anchor 1 2> mark @c Y Z;"
>>
Prefix == "@c = [a b];%0Alookup l { sub a by b; } l;%0Afeature f {%0A  "
Suffix == "%0A} f;%0A"

Alpha == IF IOEnv.ALPHA = "ext" THEN Main \o Extra ELSE Main
NL == Len(Alpha)
MaxLen == atoi(IOEnv.MAXLEN)
FullLen == atoi(IOEnv.FULLLEN)
Keep == atoi(IOEnv.KEEP)
Seed == atoi(IOEnv.SEED)

Joiners == {0, 1}     \* 0: lexemes adjacent, 1: separated by one space

VARIABLES s, j

RECURSIVE Mix(_, _, _)
Mix(h, q, n) == IF n > Len(q) THEN h ELSE Mix((h * 7919 + q[n] * 104729 + 17) % 65521, q, n + 1)
Hash(q, jj) == Mix((Seed * 31 + jj * 13 + 7) % 65521, q, 1) % 10000

Init ==
  IF IOEnv.ALPHA = "rules"
  THEN /\ j = 2
       /\ s \in {<<t, x, y, z>> : t \in 1..Len(Templates), x, y, z \in 1..Len(Items)}
       /\ (Keep >= 10000 \/ Hash(s, j) < Keep)
  ELSE \E n \in 0..MaxLen :
         /\ s \in [1..n -> 1..NL]
         /\ j \in (IF n <= 1 THEN {0} ELSE Joiners)
         /\ (n <= FullLen \/ Hash(s, j) < Keep)

Next == UNCHANGED <<s, j>>
Spec == Init /\ [][Next]_<<s, j>>

Emit == PrintT(<<"R", j, s>>)

ASSUME PrintT(<<"LEX", ToJson(IF IOEnv.ALPHA = "rules"
                                THEN [items |-> Items, templates |-> Templates, prefix |-> Prefix, suffix |-> Suffix]
                                ELSE [alpha |-> Alpha])>>)
=============================================================================
