------------------------------- MODULE Coords -------------------------------
(***************************************************************************)
(* C08: axis ranges and the user / design / normalized mapping survive     *)
(* into fvar and avar.                                                     *)
(*                                                                         *)
(* Transcribed over exact rationals (RationalC):                           *)
(*   fontdrasil/src/piecewise_linear_map.rs   PLMNew PLMMap PLMReverse     *)
(*   fontdrasil/src/coords.rs                 ConverterNew                 *)
(*                                            DefaultNormalization Unmapped*)
(*   ufo2fontir/src/toir.rs to_ir_axis        AxisOf                       *)
(*   glyphs2fontir/src/toir.rs to_ir_axis     GlyphsCase                   *)
(*   fontbe/src/avar.rs to_segment_map        AvarExact, SegUnits          *)
(*   fontbe/src/fvar.rs                       Expected.fvar, .instUser     *)
(*                                                                         *)
(* One state per axis definition (a "case").  The state carries the case   *)
(* and everything the spec derives from it (`x`); the invariants are the   *)
(* property, checked by TLC on the spec for every enumerated case, and     *)
(* `Emit` prints the case + expected observation as a REPLAY line that the *)
(* harness replays into the real code (vh coords).                         *)
(***************************************************************************)
EXTENDS Integers, Sequences, FiniteSets, TLC, Json, IOUtils, RationalC

CONSTANTS
    Source,     \* "enum": mapped axes enumerated from UVals/DVals; "unmapped": axes without <map>, every
                \* min <= default <= max over UVals; "both"; "file": cases read from the ndjson file named by
                \* the environment variable C08_CASES (fixture axes); "all" = "both" + "file"
    UVals,      \* user coordinates of mapping nodes are k/Den, k \in UVals (naturals)
    DVals,      \* design coordinates of mapping nodes are k/Den, k \in DVals
    Den,        \* 2: integer and half values
    GridMul,    \* the dense user grid is every multiple of 1/(Den*GridMul) in [min, max]
    NMin, NMax  \* number of mapping points: NMin..NMax

VARIABLES stage, c, x

F2DOT14 == 16384          \* 2^14: one F2Dot14 unit is 2^-14
FIXED == 65536            \* 2^16: fvar values are Fixed 16.16

(***************************************************************************)
(* Sorting helpers                                                         *)
(***************************************************************************)
\* lexicographic order on pairs == Vec<(OrderedFloat, OrderedFloat)>::sort()
PairLt(p, q) == QLt(p[1], q[1]) \/ (p[1] = q[1] /\ QLt(p[2], q[2]))

RECURSIVE InsertSorted(_, _)
InsertSorted(s, p) ==
    IF Len(s) = 0 THEN <<p>>
    ELSE IF PairLt(p, Head(s)) THEN <<p>> \o s
    ELSE <<Head(s)>> \o InsertSorted(Tail(s), p)

RECURSIVE SortPairsFrom(_, _, _)
SortPairsFrom(s, i, acc) == IF i > Len(s) THEN acc ELSE SortPairsFrom(s, i + 1, InsertSorted(acc, s[i]))
SortPairs(s) == SortPairsFrom(s, 1, <<>>)

RECURSIVE SortedInts(_)
SortedInts(S) == IF S = {} THEN <<>>
                 ELSE LET m == CHOOSE a \in S : \A b \in S : a <= b IN <<m>> \o SortedInts(S \ {m})

(***************************************************************************)
(* PiecewiseLinearMap: a sequence of <<from, to>> sorted as pairs.         *)
(***************************************************************************)
PLMNew(pairs) == SortPairs(pairs)

PLMReverse(m) == PLMNew([i \in 1..Len(m) |-> <<m[i][2], m[i][1]>>])

Lerp(a, b, t) == QAdd(a, QMul(t, QSub(b, a)))

PLMMap(m, v) ==
    IF Len(m) = 0 THEN v
    ELSE LET n == Len(m)
             \* partition_point(|x| x < value): from is sorted, so this is a prefix length
             below == Cardinality({i \in 1..n : QLt(m[i][1], v)})
             hit == \E i \in 1..n : m[i][1] = v
         IN IF hit THEN m[below + 1][2]                         \* first occurrence of a duplicate key
            ELSE IF below = 0 THEN QAdd(v, QSub(m[1][2], m[1][1]))       \* too small: shift
            ELSE IF below = n THEN QAdd(v, QSub(m[n][2], m[n][1]))       \* too big: shift
            ELSE Lerp(m[below][2], m[below + 1][2],
                      QDiv(QSub(v, m[below][1]), QSub(m[below + 1][1], m[below][1])))

(***************************************************************************)
(* CoordConverter.  `k` is the 1-based default index (Rust default_idx+1)  *)
(* into the mappings *as given* (not sorted).                              *)
(***************************************************************************)
ConverterNew(mappings, k) ==
    LET ms == IF Len(mappings) = 0 THEN << <<QZero, QZero>> >> ELSE mappings
        u2d == PLMNew(ms)
        dcs == [i \in 1..Len(ms) |-> ms[i][2]]
        dmin == QSeqMin(dcs)
        dmax == QSeqMax(dcs)
    IN IF k < 1 \/ k > Len(ms) THEN [ok |-> FALSE, why |-> "DefaultOutOfBounds"]
       ELSE LET dd == dcs[k]
                ex == (IF QLt(dmin, dd) THEN << <<dmin, QMinusOne>> >> ELSE <<>>)
                      \o << <<dd, QZero>> >>
                      \o (IF QGt(dmax, dd) THEN << <<dmax, QOne>> >> ELSE <<>>)
                d2n == PLMNew(ex)
            IN [ok |-> TRUE, u2d |-> u2d, d2u |-> PLMReverse(u2d), d2n |-> d2n, n2d |-> PLMReverse(d2n)]

DefaultNormalization(min, def, max) ==
    LET lo == IF QLt(min, def) THEN << <<min, QMinusOne>> >> ELSE <<>>
        hi == IF QGt(max, def) THEN << <<max, QOne>> >> ELSE <<>>
    IN ConverterNew(lo \o << <<def, QZero>> >> \o hi, Len(lo) + 1)

RECURSIVE Dedup(_)
Dedup(s) == IF Len(s) <= 1 THEN s
            ELSE IF s[1] = s[2] THEN Dedup(Tail(s)) ELSE <<s[1]>> \o Dedup(Tail(s))

Unmapped(min, def, max) ==
    LET ms == Dedup(<< <<min, min>>, <<def, def>>, <<max, max>> >>)
        k == CHOOSE i \in 1..Len(ms) : ms[i][1] = def /\ \A j \in 1..(i - 1) : ms[j][1] # def
    IN ConverterNew(ms, k)

UserToDesign(cv, u) == PLMMap(cv.u2d, u)
DesignToNorm(cv, d) == PLMMap(cv.d2n, d)
DesignToUser(cv, d) == PLMMap(cv.d2u, d)
UserToNorm(cv, u) == DesignToNorm(cv, UserToDesign(cv, u))
NormToDesign(cv, n) == PLMMap(cv.n2d, n)

(***************************************************************************)
(* A case (axis definition as a .designspace states it):                   *)
(*   [id, mapped, amin, adef, amax, map, grid, inst]                       *)
(* amin/adef/amax: the axis element's minimum/default/maximum (user);      *)
(* map: sequence of <<input(user), output(design)>> in source order (empty *)
(* when the axis has no <map>); grid: user coordinates to evaluate;        *)
(* inst: design coordinates of named instances.                            *)
(*                                                                         *)
(* ufo2fontir to_ir_axis: the default index is the position of the first   *)
(* map entry whose input is the default, and min/max must be inputs too.   *)
(***************************************************************************)
AxisOf(cs) ==
    IF cs.mapped
    THEN LET m == cs.map
             hasMinMax == (\E i \in 1..Len(m) : m[i][1] = cs.amin) /\ (\E i \in 1..Len(m) : m[i][1] = cs.amax)
             pos == {i \in 1..Len(m) : m[i][1] = cs.adef}
         IN IF pos = {} \/ ~hasMinMax THEN [ok |-> FALSE, why |-> "MissingAxisMapping"]
            ELSE LET k == CHOOSE i \in pos : \A j \in pos : i <= j
                     cv == ConverterNew(m, k)
                 IN IF ~cv.ok THEN cv
                    ELSE [ok |-> TRUE, min |-> cs.amin, def |-> cs.adef, max |-> cs.amax, conv |-> cv]
    ELSE [ok |-> TRUE, min |-> cs.amin, def |-> cs.adef, max |-> cs.amax,
          conv |-> Unmapped(cs.amin, cs.adef, cs.amax)]

\* Axis::is_point: dropped from the variable axes, no fvar record
IsPoint(ax) == ax.min = ax.def /\ ax.max = ax.def

(***************************************************************************)
(* The domain of the property: what we call a valid axis definition.       *)
(* Inputs are distinct, lie in [min, max], include min, default and max;   *)
(* outputs do not decrease when inputs increase (flat segments allowed);   *)
(* and the design range has a lower (upper) side exactly when the user     *)
(* range has one -- otherwise "design min to -1" and "default to 0" of the *)
(* property statement contradict each other (min and default would be the  *)
(* same design coordinate) and the -1:-1 avar entry cannot exist.          *)
(***************************************************************************)
Valid(cs) ==
    /\ QLe(cs.amin, cs.adef) /\ QLe(cs.adef, cs.amax)
    /\ cs.mapped =>
        LET m == cs.map
            n == Len(m)
            out(u) == LET i == CHOOSE j \in 1..n : m[j][1] = u IN m[i][2]
        IN /\ n >= 1
           /\ \A i, j \in 1..n : i # j => m[i][1] # m[j][1]
           /\ \A i \in 1..n : QLe(cs.amin, m[i][1]) /\ QLe(m[i][1], cs.amax)
           /\ \A i, j \in 1..n : QLt(m[i][1], m[j][1]) => QLe(m[i][2], m[j][2])
           /\ \A u \in {cs.amin, cs.adef, cs.amax} : \E i \in 1..n : m[i][1] = u
           /\ (QLt(cs.amin, cs.adef) <=> QLt(out(cs.amin), out(cs.adef)))
           /\ (QLt(cs.adef, cs.amax) <=> QLt(out(cs.adef), out(cs.amax)))

(***************************************************************************)
(* avar: to_segment_map.  Exact segment list, then rounded to F2Dot14.     *)
(***************************************************************************)
DefaultSeg == << <<QMinusOne, QMinusOne>>, <<QZero, QZero>>, <<QOne, QOne>> >>

AvarExact(ax) ==
    LET dc == DefaultNormalization(ax.min, ax.def, ax.max)
        nodes == ax.conv.u2d
        ms == [i \in 1..Len(nodes) |-> <<UserToNorm(dc, nodes[i][1]), UserToNorm(ax.conv, nodes[i][1])>>]
        \* the reduce in to_segment_map: min over the keys (default normalisation), max over the values
        lo == QSeqMin([i \in 1..Len(ms) |-> ms[i][1]])
        hi == QSeqMax([i \in 1..Len(ms) |-> ms[i][2]])
        padded == (IF lo # QMinusOne THEN << <<QMinusOne, QMinusOne>> >> ELSE <<>>)
                  \o ms
                  \o (IF hi # QOne THEN << <<QOne, QOne>> >> ELSE <<>>)
    IN IF \A i \in 1..Len(padded) : padded[i][1] = padded[i][2] THEN DefaultSeg ELSE padded

SegUnits(seg) == [i \in 1..Len(seg) |-> <<QRoundUnits(seg[i][1], F2DOT14), QRoundUnits(seg[i][2], F2DOT14)>>]

IsIdentity(seg) == \A i \in 1..Len(seg) : seg[i][1] = seg[i][2]

\* steepest segment of the exact map (0 when there is none)
MaxSlope(seg) ==
    LET idx == {i \in 1..(Len(seg) - 1) : QLt(seg[i][1], seg[i + 1][1])}
        sl(i) == QDiv(QSub(seg[i + 1][2], seg[i][2]), QSub(seg[i + 1][1], seg[i][1]))
        slopes == [i \in 1..(Len(seg) - 1) |-> IF i \in idx THEN QAbs(sl(i)) ELSE QZero]
    IN IF Len(seg) < 2 THEN QZero ELSE QSeqMax(slopes)

(***************************************************************************)
(* THE TOLERANCE (in F2Dot14 units, i.e. multiples of 2^-14).              *)
(*                                                                         *)
(* A font stores each avar node <<a, b>> rounded to F2Dot14: a and b each  *)
(* move by at most 1/2 unit.  The renderer rounds the default-normalised   *)
(* coordinate x to F2Dot14 (1/2 unit) before applying avar, and the result *)
(* is again an F2Dot14 (1/2 unit).  For a non-decreasing piecewise-linear  *)
(* f with steepest slope S: moving every node by (da, db) with |da| <= 1/2,*)
(* |db| <= 1/2 gives f~ with f~(x) = f(x - da') + db' for some |da'|<=1/2, *)
(* |db'| <= 1/2, hence |f~(x~) - f(x)| <= 1/2 + S/2 (nodes) + S/2 (input)  *)
(* and 1/2 more for rounding the output:  1 + S units = 2^-14 * (1 + S).   *)
(* Nothing else is granted.                                                *)
(***************************************************************************)
TolUnits(seg) == QAdd(QOne, MaxSlope(seg))

\* Evaluate a quantised segment map (integer F2Dot14 units) at integer xU: rational in units.
\* This is the OpenType avar rule: exact node -> its value, otherwise linear between neighbours.
QuantEval(segU, xU) ==
    LET n == Len(segU)
        below == Cardinality({i \in 1..n : segU[i][1] < xU})
        hit == \E i \in 1..n : segU[i][1] = xU
    IN IF n = 0 THEN <<xU, 1>>
       ELSE IF hit THEN <<segU[below + 1][2], 1>>
       ELSE IF below = 0 THEN <<xU + segU[1][2] - segU[1][1], 1>>
       ELSE IF below = n THEN <<xU + segU[n][2] - segU[n][1], 1>>
       ELSE LET l == segU[below]
                r == segU[below + 1]
            IN QAdd(<<l[2], 1>>, Q((r[2] - l[2]) * (xU - l[1]), r[1] - l[1]))

\* OpenType default normalisation from the fvar triple, clamped to [min, max]
FvarNormalize(fv, u) ==
    LET uc == QMax(fv[1], QMin(fv[3], u))
    IN IF QLt(uc, fv[2]) THEN QNeg(QDiv(QSub(fv[2], uc), QSub(fv[2], fv[1])))
       ELSE IF QGt(uc, fv[2]) THEN QDiv(QSub(uc, fv[2]), QSub(fv[3], fv[2]))
       ELSE QZero

(***************************************************************************)
(* Everything the spec derives from a case.                                *)
(***************************************************************************)
Expected(cs) ==
    LET ax == AxisOf(cs)
    IN IF ~ax.ok THEN [id |-> cs.id, case |-> cs, ok |-> FALSE, why |-> ax.why, valid |-> Valid(cs)]
       ELSE
       LET fv == <<ax.min, ax.def, ax.max>>
           seg == AvarExact(ax)
           segU == SegUnits(seg)
           dc == DefaultNormalization(ax.min, ax.def, ax.max)
           g == cs.grid
           design == [i \in 1..Len(g) |-> UserToDesign(ax.conv, g[i])]
           norm == [i \in 1..Len(g) |-> DesignToNorm(ax.conv, design[i])]
           dnorm == [i \in 1..Len(g) |-> UserToNorm(dc, g[i])]
           fnorm == [i \in 1..Len(g) |-> FvarNormalize(fv, g[i])]
           viaAvar == [i \in 1..Len(g) |-> PLMMap(seg, fnorm[i])]
           quant == [i \in 1..Len(g) |-> QuantEval(segU, QRoundUnits(fnorm[i], F2DOT14))]
           instUser == [i \in 1..Len(cs.inst) |-> DesignToUser(ax.conv, cs.inst[i])]
           back == [i \in 1..Len(g) |-> NormToDesign(ax.conv, norm[i])]
       IN [id |-> cs.id, case |-> cs, ok |-> TRUE, valid |-> Valid(cs), point |-> IsPoint(ax),
           fvar |-> fv,
           fvarFixed |-> [i \in 1..3 |-> QRoundUnits(fv[i], FIXED)],
           nodes |-> [i \in 1..Len(ax.conv.u2d) |->
                        <<ax.conv.u2d[i][1], ax.conv.u2d[i][2], UserToNorm(ax.conv, ax.conv.u2d[i][1])>>],
           d2n |-> ax.conv.d2n,
           avar |-> seg, avarU |-> segU, identity |-> IsIdentity(seg),
           slope |-> MaxSlope(seg), tolU |-> TolUnits(seg),
           design |-> design, norm |-> norm, dnorm |-> dnorm, fnorm |-> fnorm,
           viaAvar |-> viaAvar, quant |-> quant, back |-> back,
           instUser |-> instUser]

(***************************************************************************)
(* Case enumeration                                                        *)
(***************************************************************************)
V(k) == Q(k, Den)

\* every multiple of 1/(Den*GridMul) in [lo/Den, hi/Den]
GridOf(lo, hi) == [i \in 1..((hi - lo) * GridMul + 1) |-> Q(lo * GridMul + i - 1, Den * GridMul)]

\* instances: at every node's design coordinate and half way between consecutive distinct ones
InstOf(ds) ==
    LET S == {ds[i] : i \in 1..Len(ds)}
        sorted == SortedInts(S)
        mids == [i \in 1..(Len(sorted) - 1) |-> Q(sorted[i] + sorted[i + 1], 2 * Den)]
    IN [i \in 1..Len(sorted) |-> V(sorted[i])] \o mids

MapCase(us, ds, k) ==
    [id |-> <<"m", us, ds, k>>, mapped |-> TRUE,
     amin |-> V(us[1]), adef |-> V(us[k]), amax |-> V(us[Len(us)]),
     map |-> [i \in 1..Len(us) |-> <<V(us[i]), V(ds[i])>>],
     grid |-> GridOf(us[1], us[Len(us)]), inst |-> InstOf(ds)]

UnmappedCase(a, b, d) ==
    [id |-> <<"u", a, b, d>>, mapped |-> FALSE, amin |-> V(a), adef |-> V(b), amax |-> V(d),
     map |-> <<>>, grid |-> GridOf(a, d), inst |-> << V(a), V(b), V(d) >> \o (IF a < d THEN <<Q(a + d, 2 * Den)>> ELSE <<>>)]

\* a shape = the set of user nodes; the cases of a shape = all design assignments and defaults
EnumShapes == {[kind |-> "enum", us |-> SortedInts(S)] : S \in {T \in SUBSET UVals : Cardinality(T) \in NMin..NMax}}
UnmappedShapes == {[kind |-> "unmapped", a |-> a] : a \in UVals}

FileShapes == LET all == ndJsonDeserialize(IOEnv.C08_CASES)
              IN {[kind |-> "file", i |-> i] : i \in 1..Len(all)}

Shapes ==
    CASE Source = "enum" -> EnumShapes
      [] Source = "unmapped" -> UnmappedShapes
      [] Source = "both" -> EnumShapes \cup UnmappedShapes
      [] Source = "file" -> FileShapes
      [] Source = "all" -> EnumShapes \cup UnmappedShapes \cup FileShapes

(***************************************************************************)
(* A .glyphs source states an axis differently: the user:design mapping    *)
(* (list order as glyphs-reader yields it), every master's design          *)
(* coordinate and which master is the default.  glyphs2fontir/src/toir.rs  *)
(* to_ir_axis turns that into min/default/max: the user value of the       *)
(* FIRST mapping entry whose design value is the masters' min / default /  *)
(* max; an identity mapping or a single master position means "unmapped".  *)
(* GlyphsCase restates the axis in the designspace vocabulary used above.  *)
(***************************************************************************)
GlyphsCase(r) ==
    LET mv == r.mvals
        m == r.map
        dmin == QSeqMin(mv)
        dmax == QSeqMax(mv)
        ddef == mv[r.defm]
        nonIdentity == Len(m) > 0 /\ ~(\A i \in 1..Len(m) : m[i][1] = m[i][2]) /\ dmin # dmax
        first(d) == LET S == {i \in 1..Len(m) : m[i][2] = d}
                    IN IF S = {} THEN 0 ELSE CHOOSE i \in S : \A j \in S : i <= j
    IN IF nonIdentity
       THEN IF first(dmin) = 0 \/ first(ddef) = 0 \/ first(dmax) = 0
            THEN \* MissingMappingForDesignCoord: a mapped case AxisOf rejects
                 [id |-> r.id, mapped |-> TRUE, amin |-> QZero, adef |-> QZero, amax |-> QZero,
                  map |-> <<>>, grid |-> <<>>, inst |-> <<>>]
            ELSE [id |-> r.id, mapped |-> TRUE, amin |-> m[first(dmin)][1], adef |-> m[first(ddef)][1],
                  amax |-> m[first(dmax)][1], map |-> m, grid |-> r.grid, inst |-> r.inst]
       ELSE [id |-> r.id, mapped |-> FALSE, amin |-> dmin, adef |-> ddef, amax |-> dmax,
             map |-> <<>>, grid |-> r.grid, inst |-> r.inst]

FileCase(i) ==
    LET r == ndJsonDeserialize(IOEnv.C08_CASES)[i]
    IN IF r.glyphs THEN GlyphsCase(r)
       ELSE [id |-> r.id, mapped |-> r.mapped, amin |-> r.amin, adef |-> r.adef, amax |-> r.amax,
             map |-> r.map, grid |-> r.grid, inst |-> r.inst]

CasesOf(sh) ==
    CASE sh.kind = "enum" ->
            LET n == Len(sh.us)
            IN {cs \in {MapCase(sh.us, ds, k) :
                            ds \in {f \in [1..n -> DVals] : \A i \in 1..(n - 1) : f[i] <= f[i + 1]},
                            k \in 1..n} : Valid(cs)}
      [] sh.kind = "unmapped" ->
            {UnmappedCase(sh.a, p[1], p[2]) : p \in {q \in UVals \X UVals : sh.a <= q[1] /\ q[1] <= q[2]}}
      [] sh.kind = "file" -> {FileCase(sh.i)}

(***************************************************************************)
(* Orders in which the source may list the same map entries: the derived   *)
(* axis must not depend on it (the default index is a position in the      *)
(* unsorted list).                                                         *)
(***************************************************************************)
Reversed(s) == [i \in 1..Len(s) |-> s[Len(s) + 1 - i]]
Rotated(s) == IF Len(s) <= 1 THEN s ELSE Tail(s) \o <<Head(s)>>
Swapped(s) == IF Len(s) <= 1 THEN s ELSE <<s[2], s[1]>> \o SubSeq(s, 3, Len(s))
Orders(m) == {m, Reversed(m), Rotated(m), Swapped(m)}

(***************************************************************************)
(* Behaviour: shape states fan out into case states.                       *)
(***************************************************************************)
Init == /\ stage = "shape"
        /\ c \in Shapes
        /\ x = <<>>

Next == /\ stage = "shape"
        /\ stage' = "case"
        /\ \E cs \in CasesOf(c) : c' = cs /\ x' = Expected(cs)

Spec == Init /\ [][Next]_<<stage, c, x>>

IsCase == stage = "case" /\ x.ok
Grid == 1..Len(c.grid)

(***************************************************************************)
(* THE PROPERTY, on the spec                                               *)
(***************************************************************************)
\* every valid definition is accepted
ValidAccepted == stage = "case" /\ x.valid => x.ok

\* fvar min/default/max are the source's user-space bounds, exactly representable as Fixed
FvarIsUserBounds ==
    IsCase /\ x.valid =>
        /\ x.fvar = <<c.amin, c.adef, c.amax>>
        /\ \A i \in 1..3 : Q(x.fvarFixed[i], FIXED) = x.fvar[i]
        /\ c.mapped => /\ x.fvar[1] = QSeqMin([i \in 1..Len(c.map) |-> c.map[i][1]])
                       /\ x.fvar[3] = QSeqMax([i \in 1..Len(c.map) |-> c.map[i][1]])

\* -1:-1, 0:0, 1:1 present (exact and after rounding); non-decreasing, keys strictly increasing
AvarRequiredMaps ==
    IsCase /\ x.valid =>
        /\ \A p \in {<<QMinusOne, QMinusOne>>, <<QZero, QZero>>, <<QOne, QOne>>} :
              \E i \in 1..Len(x.avar) : x.avar[i] = p
        /\ \A p \in {<<-F2DOT14, -F2DOT14>>, <<0, 0>>, <<F2DOT14, F2DOT14>>} :
              \E i \in 1..Len(x.avarU) : x.avarU[i] = p

AvarNonDecreasing ==
    IsCase /\ x.valid =>
        \A i \in 1..(Len(x.avar) - 1) :
            /\ QLt(x.avar[i][1], x.avar[i + 1][1]) /\ QLe(x.avar[i][2], x.avar[i + 1][2])
            /\ x.avarU[i][1] < x.avarU[i + 1][1] /\ x.avarU[i][2] <= x.avarU[i + 1][2]

\* design normalisation: default to 0, design min to -1, design max to +1, everything in [-1, 1]
NormalizationAnchors ==
    IsCase /\ x.valid =>
        /\ \A i \in Grid : c.grid[i] = c.adef => x.norm[i] = QZero
        /\ \A i \in Grid : c.grid[i] = c.amin /\ QLt(c.amin, c.adef) => x.norm[i] = QMinusOne
        /\ \A i \in Grid : c.grid[i] = c.amax /\ QLt(c.adef, c.amax) => x.norm[i] = QOne
        /\ \A i \in Grid : QLe(QMinusOne, x.norm[i]) /\ QLe(x.norm[i], QOne)
        /\ \A i \in Grid : x.fnorm[i] = x.dnorm[i]        \* fvar normalisation = default_normalization converter

\* the two routes agree exactly, for every user coordinate of the dense grid, with the unrounded map
TwoRoutesExact ==
    IsCase /\ x.valid => \A i \in Grid : x.viaAvar[i] = x.norm[i]

\* and within TolUnits once nodes, input and output are F2Dot14 (compared without multiplying:
\* quant - 2^14*norm in [-tol, tol])
TwoRoutesQuantised ==
    IsCase /\ x.valid /\ c.id[1] # "fixture" =>       \* fixture coordinates (3 digits) overflow 32 bits in e + tol
        \A i \in Grid :
            LET e == QMul(x.norm[i], <<F2DOT14, 1>>)
            IN /\ QLe(x.quant[i], QAdd(e, x.tolU))
               /\ QGe(x.quant[i], QSub(e, x.tolU))

\* normalized -> design is the inverse of design -> normalized on the design range
NormDesignRoundTrip ==
    IsCase /\ x.valid => \A i \in Grid : x.back[i] = x.design[i]

InstancesInRange ==
    IsCase /\ x.valid =>
        \A i \in 1..Len(x.instUser) : QLe(c.amin, x.instUser[i]) /\ QLe(x.instUser[i], c.amax)

\* listing the same map entries in another order gives the same axis
OrderIndependent ==
    IsCase /\ x.valid /\ c.mapped =>
        \A m \in Orders(c.map) : AxisOf([c EXCEPT !.map = m]) = AxisOf(c)

\* print the case and its expected observation for the harness
Emit == stage = "case" => PrintT(<<"REPLAY", ToJson(x)>>)

=============================================================================
