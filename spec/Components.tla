----------------------------- MODULE Components -----------------------------
(***************************************************************************)
(* C12: component handling options never change what a glyph looks like.   *)
(*                                                                         *)
(* Transcribed over exact fixed-point integers (every value is v*64; every *)
(* division is checked to be exact, so nothing is ever rounded here):      *)
(*   fontir/src/glyph.rs  prune_missing_components        Prune            *)
(*                        flatten_all_non_export_components InlineAll      *)
(*                        flatten_non_export_components_for_glyph          *)
(*                                                        InlineGlyph      *)
(*                        collect_component_locations_nested CompLocs      *)
(*                        instantiate_instance / get_or_instantiate InstAt *)
(*                        GlyphOrderWork::exec (todo list) TodoOf          *)
(*                        resolve_inconsistencies          FixStep         *)
(*                        convert_components_to_contours   ConvGlyph       *)
(*                        split_glyph / move_contours_to_new_component     *)
(*                                                        SplitGlyph       *)
(*                        name_for_derivative              NameFor         *)
(*                        apply_optional_transformations   DecomposeAll    *)
(*                                          DecomposeTransformed FlattenAll*)
(*                        flatten_glyph                    FlattenGlyph    *)
(*   fontir/src/ir.rs     has_overflowing_2x2_transforms   Overflow        *)
(*                        has_mixed_contours_and_components Mixed          *)
(*                        has_nonidentity_2x2              NonId2x2        *)
(*   fontbe/src/glyphs.rs CheckedGlyph::new, create_component_ref_gid      *)
(*                                                        FinalGaps        *)
(*                                                                         *)
(* A behaviour = one source (a "case", generated from the case number by a *)
(* deterministic generator seeded from the environment) built under one of *)
(* the 16 option subsets; each action is one step of GlyphOrderWork::exec. *)
(* THE PROPERTY, as an invariant of the spec: every step preserves, for    *)
(* every exported source glyph at every master location of the case, the   *)
(* multiset of resolved contours (Resolve: leaf contours under the         *)
(* accumulated affine, reversed when the determinant is negative, compared *)
(* up to the start point) and the advance.  A state in which the spec      *)
(* itself does not preserve them is a design-level counterexample ("gap"); *)
(* gaps are recorded in `gaps`, fail the invariant NoSpecGap when          *)
(* StopOnGap = TRUE, and otherwise travel with the RUN line so that the    *)
(* harness confirms or refutes each of them against the real compiler.     *)
(* Emit prints one CASE line per case (abstract source + expected resolved *)
(* contours, advance and tolerance per glyph and location) and one RUN     *)
(* line per (case, option subset) with the predicted storage and the gaps. *)
(***************************************************************************)
EXTENDS Integers, Sequences, FiniteSets, TLC, Json, IOUtils

CONSTANTS
    NCases,     \* how many case numbers to generate (C12_COUNT in the environment overrides)
    StopOnGap   \* TRUE: a state where the spec itself breaks the property violates NoSpecGap

VARIABLES
    pc,         \* next pipeline step: "prune","inline","todo","fix","opt_de","opt_dt","opt_fl","final"
    c,          \* the case (never changes)
    o,          \* option subset [fl, de, dt, ps] (never changes)
    st,         \* glyph store: id -> [exp, ovf (cached flag), src: loc -> [w, cs, comps]]
    nm,         \* glyph names: id -> STRING (derived glyphs are added by SplitGlyph)
    order,      \* the glyph order (sequence of ids)
    todo,       \* resolve_inconsistencies work list: sequence of <<op, id>>
    gaps        \* design-level counterexamples found so far (sequence of records)
vars == <<pc, c, o, st, nm, order, todo, gaps>>

U == 64                              \* fixed-point unit
EnvInt(name, dflt) == IF name \in DOMAIN IOEnv THEN atoi(IOEnv[name]) ELSE dflt
Seed == EnvInt("C12_SEED", 1)
First == EnvInt("C12_FIRST", 1)
Count == EnvInt("C12_COUNT", NCases)

(***************************************************************************)
(* Exact arithmetic                                                        *)
(***************************************************************************)
ExactDiv(n, d) == IF Assert(n % d = 0, <<"inexact division", n, d>>) THEN n \div d ELSE 0
Mul(a, b) == ExactDiv(a * b, U)
Half(a) == ExactDiv(a, 2)
Abs(a) == IF a < 0 THEN -a ELSE a
Max2(a, b) == IF a > b THEN a ELSE b

\* TLC evaluates [x \in S |-> e] lazily and re-evaluates e at every application; these force a value once
Sq(s) == s \o <<>>             \* sequences
Fn(f) == f @@ <<>>             \* functions over any finite domain
RECURSIVE ConcatR(_)
ConcatR(ss) == IF Len(ss) = 0 THEN <<>> ELSE Head(ss) \o ConcatR(Tail(ss))
Concat(ss) == ConcatR(Sq(ss))
Rev(s) == Sq([i \in 1..Len(s) |-> s[Len(s) + 1 - i]])
Range(s) == {s[i] : i \in DOMAIN s}

(***************************************************************************)
(* Affines <<a,b,c,d,e,f>>: x' = a x + c y + e, y' = b x + d y + f          *)
(* (kurbo::Affine, UFO xScale xyScale yxScale yScale xOffset yOffset)      *)
(***************************************************************************)
Id6 == <<U, 0, 0, U, 0, 0>>
\* kurbo `A * B`: apply B first, then A
Compose(A, B) == << Mul(A[1], B[1]) + Mul(A[3], B[2]),
                    Mul(A[2], B[1]) + Mul(A[4], B[2]),
                    Mul(A[1], B[3]) + Mul(A[3], B[4]),
                    Mul(A[2], B[3]) + Mul(A[4], B[4]),
                    Mul(A[1], B[5]) + Mul(A[3], B[6]) + A[5],
                    Mul(A[2], B[5]) + Mul(A[4], B[6]) + A[6] >>
ApplyPt(A, p) == << Mul(A[1], p[1]) + Mul(A[3], p[2]) + A[5], Mul(A[2], p[1]) + Mul(A[4], p[2]) + A[6] >>
DetNeg(A) == A[1] * A[4] - A[2] * A[3] < 0
\* BezPath::apply_affine, then reverse_subpaths when the determinant is negative
XfContour(A, ct) == LET m == Sq([i \in 1..Len(ct) |-> ApplyPt(A, ct[i])]) IN IF DetNeg(A) THEN Rev(m) ELSE m
\* max abs row sum of the 2x2: how much one unit in the component's frame can become in the parent's
Magnif(A) == Max2(Abs(A[1]) + Abs(A[3]), Abs(A[2]) + Abs(A[4]))

(***************************************************************************)
(* Glyph instances and interpolation of missing instances                  *)
(* (instantiate_instance: unrounded; our glyphs have sources {0}, {0,2} or *)
(* {0,1,2} where location 1 is the middle of the axis, so the only         *)
(* interpolation ever needed is the midpoint of the two masters)           *)
(***************************************************************************)
MidInst(a, b) ==
    [w |-> Half(a.w + b.w),
     cs |-> Sq([i \in DOMAIN a.cs |-> Sq([j \in DOMAIN a.cs[i] |->
                << Half(a.cs[i][j][1] + b.cs[i][j][1]), Half(a.cs[i][j][2] + b.cs[i][j][2]) >>])]),
     comps |-> Sq([i \in DOMAIN a.comps |->
                [b |-> a.comps[i].b, t |-> Sq([k \in 1..6 |-> Half(a.comps[i].t[k] + b.comps[i].t[k])])]])]

InstAt(g, l) ==
    IF l \in DOMAIN g.src THEN g.src[l]
    ELSE IF DOMAIN g.src = {0} THEN g.src[0]
    ELSE IF Assert(l = 1 /\ DOMAIN g.src = {0, 2}, <<"unexpected interpolation", l, DOMAIN g.src>>)
         THEN MidInst(g.src[0], g.src[2]) ELSE g.src[0]

CompIds(g) == UNION {{g.src[l].comps[k].b : k \in DOMAIN g.src[l].comps} : l \in DOMAIN g.src}

\* ids reachable through components (existing glyphs only)
RECURSIVE ReachFrom(_, _, _)
ReachFrom(S, frontier, seen) ==
    IF frontier = {} THEN seen
    ELSE LET x == CHOOSE y \in frontier : TRUE
             nxt == IF x \in DOMAIN S THEN CompIds(S[x]) \ (seen \cup {x}) ELSE {}
         IN ReachFrom(S, (frontier \ {x}) \cup nxt, seen \cup {x})
Reach(S, g) == ReachFrom(S, CompIds(g), {})

(***************************************************************************)
(* Resolve: what the glyph looks like (level-wise definition)              *)
(***************************************************************************)
RECURSIVE Resolve(_, _, _)
Resolve(S, id, l) ==
    IF id \notin DOMAIN S THEN <<>>                      \* a missing component draws nothing
    ELSE LET inst == InstAt(S[id], l)
         IN inst.cs \o Concat([k \in DOMAIN inst.comps |->
                LET sub == Resolve(S, inst.comps[k].b, l)
                IN Sq([j \in DOMAIN sub |-> XfContour(inst.comps[k].t, sub[j])])])

\* the same with the accumulated affine, carrying nesting level and tolerance:
\* tolerance = one unit per nesting level (the glyph's own outline is a level), a level's unit being
\* magnified by the accumulated 2x2 above it when that magnifies (scale 2 and 3), never less than one unit
RECURSIVE ResolveT(_, _, _, _, _, _)
ResolveT(S, id, l, A, lvl, tol) ==
    IF id \notin DOMAIN S THEN <<>>
    ELSE LET inst == InstAt(S[id], l)
         IN Sq([j \in DOMAIN inst.cs |-> [p |-> XfContour(A, inst.cs[j]), lv |-> lvl, tol |-> tol]])
            \o Concat([k \in DOMAIN inst.comps |->
                LET T == Compose(A, inst.comps[k].t)
                IN ResolveT(S, inst.comps[k].b, l, T, lvl + 1, tol + Max2(U, Magnif(T)))])

PtLt(p, q) == p[1] < q[1] \/ (p[1] = q[1] /\ p[2] < q[2])
Canon(ct) ==
    LET n == Len(ct)
        k == CHOOSE i \in 1..n : \A j \in 1..n : j = i \/ PtLt(ct[i], ct[j]) \/ (ct[i] = ct[j] /\ i < j)
    IN Sq([i \in 1..n |-> ct[((k + i - 2) % n) + 1]])
Bag(seq) ==
    LET cs == Sq([i \in DOMAIN seq |-> Canon(seq[i])])
    IN Fn([x \in Range(cs) |-> Cardinality({i \in DOMAIN cs : cs[i] = x})])
NoDuplicates(seq) == LET b == Bag(seq) IN \A x \in DOMAIN b : b[x] = 1

(***************************************************************************)
(* Predicates of ir::Glyph                                                 *)
(***************************************************************************)
Overflow(g) == \E l \in DOMAIN g.src : \E k \in DOMAIN g.src[l].comps : \E i \in 1..4 :
                    g.src[l].comps[k].t[i] > 2 * U \/ g.src[l].comps[k].t[i] < -2 * U
Mixed(g) == \E l \in DOMAIN g.src : Len(g.src[l].comps) > 0 /\ Len(g.src[l].cs) > 0
NonId2x2(g) == \E l \in DOMAIN g.src : \E k \in DOMAIN g.src[l].comps :
                    <<g.src[l].comps[k].t[1], g.src[l].comps[k].t[2], g.src[l].comps[k].t[3], g.src[l].comps[k].t[4]>>
                        # <<U, 0, 0, U>>
\* ir::Glyph caches has_overflowing_2x2_transforms when it is built (Glyph::new); code that edits the sources
\* in place (prune_missing_components, flatten_glyph) leaves the cached value as it was
WithFlags(g) == [g EXCEPT !.ovf = Overflow(g)]
Consistent2x2(g) == \A l \in DOMAIN g.src :
                        /\ Len(g.src[l].comps) = Len(g.src[0].comps)
                        /\ \A k \in DOMAIN g.src[l].comps :
                              /\ g.src[l].comps[k].b = g.src[0].comps[k].b
                              /\ \A i \in 1..4 : g.src[l].comps[k].t[i] = g.src[0].comps[k].t[i]

(***************************************************************************)
(* Step 1: prune_missing_components                                        *)
(***************************************************************************)
SelectComps(comps, Keep(_)) ==
    LET F[i \in 0..Len(comps)] == IF i = 0 THEN <<>> ELSE IF Keep(comps[i]) THEN F[i - 1] \o <<comps[i]>> ELSE F[i - 1]
    IN F[Len(comps)]
Prune(S) == Fn([id \in DOMAIN S |-> [S[id] EXCEPT !.src = Fn([l \in DOMAIN S[id].src |->
                [S[id].src[l] EXCEPT !.comps = SelectComps(@, LAMBDA cp : cp.b \in DOMAIN S)]])]])

(***************************************************************************)
(* Step 2: flatten_all_non_export_components                               *)
(***************************************************************************)
CompLocs(S, g) == DOMAIN g.src \cup UNION {DOMAIN S[x].src : x \in Reach(S, g) \cap DOMAIN S}
Expand(S, g) == [g EXCEPT !.src = Fn([l \in CompLocs(S, g) |-> InstAt(g, l)])]
HasNonExportComp(S, g) == \E x \in CompIds(g) : ~S[x].exp

InlineGlyph(S, g) ==
    LET e == Expand(S, g)
        NewInst(l) ==
            LET inst == e.src[l]
                ris == Sq([k \in DOMAIN inst.comps |-> InstAt(S[inst.comps[k].b], l)])
            IN [w |-> inst.w,
                cs |-> inst.cs \o Concat([k \in DOMAIN inst.comps |->
                          IF S[inst.comps[k].b].exp THEN <<>>
                          ELSE Sq([j \in DOMAIN ris[k].cs |-> XfContour(inst.comps[k].t, ris[k].cs[j])])]),
                comps |-> Concat([k \in DOMAIN inst.comps |->
                          IF S[inst.comps[k].b].exp THEN <<inst.comps[k]>>
                          ELSE Sq([j \in DOMAIN ris[k].comps |->
                                  [b |-> ris[k].comps[j].b, t |-> Compose(inst.comps[k].t, ris[k].comps[j].t)]])])]
        \* keep the glyph's own locations plus those where a non-export component has a source of its own
        Keep(l) == l \in DOMAIN g.src
                   \/ \E k \in DOMAIN e.src[l].comps :
                        ~S[e.src[l].comps[k].b].exp /\ l \in DOMAIN S[e.src[l].comps[k].b].src
    IN WithFlags([g EXCEPT !.src = Fn([l \in {x \in DOMAIN e.src : Keep(x)} |-> NewInst(l)])])

\* glyphs are processed deepest first; among the ids 1..4 every component has a larger id than its user
RECURSIVE InlineFrom(_, _)
InlineFrom(S, id) ==
    IF id = 0 THEN S
    ELSE InlineFrom(IF id \in DOMAIN S /\ HasNonExportComp(S, S[id])
                    THEN [S EXCEPT ![id] = InlineGlyph(S, S[id])] ELSE S, id - 1)
InlineAll(S) == InlineFrom(S, 4)

(***************************************************************************)
(* convert_components_to_contours                                          *)
(***************************************************************************)
RECURSIVE FlatCs(_, _, _, _)
FlatCs(S, comps, l, A) ==
    Concat([k \in DOMAIN comps |->
        IF comps[k].b \notin DOMAIN S THEN <<>>
        ELSE LET T == Compose(A, comps[k].t)
                 ri == InstAt(S[comps[k].b], l)
             IN Sq([j \in DOMAIN ri.cs |-> XfContour(T, ri.cs[j])]) \o FlatCs(S, ri.comps, l, T)])
ConvGlyph(S, g) ==
    LET e == Expand(S, g)
    IN WithFlags([e EXCEPT !.src = Fn([l \in DOMAIN e.src |->
            [w |-> e.src[l].w, cs |-> e.src[l].cs \o FlatCs(S, e.src[l].comps, l, Id6), comps |-> <<>>]])])

(***************************************************************************)
(* split_glyph: contours go to a new glyph that becomes the last component *)
(***************************************************************************)
NameFor(base, used) ==
    LET n0 == base \o ".0"  n1 == base \o ".1"
    IN IF n0 \notin used THEN n0
       ELSE IF Assert(n1 \notin used, <<"no free derivative name", base>>) THEN n1 ELSE n1
\* name_for_derivative only looks at the glyph order, which non-exported glyphs have left; the glyph store is
\* keyed by name, so a derived glyph named like a non-exported source glyph takes its place in the store
NameCollision(base, ord, S, names) ==
    \E i \in DOMAIN S : i \notin Range(ord) /\ names[i] = NameFor(base, {names[j] : j \in Range(ord)})
SplitStore(S, id) ==
    LET g == S[id]
        simple == [g EXCEPT !.src = Fn([l \in DOMAIN g.src |-> [g.src[l] EXCEPT !.comps = <<>>]])]
        comp == [g EXCEPT !.src = Fn([l \in DOMAIN g.src |->
                    [g.src[l] EXCEPT !.cs = <<>>, !.comps = @ \o <<[b |-> id + 4, t |-> Id6]>>]])]
    IN (id :> WithFlags(comp)) @@ ((id + 4) :> WithFlags(simple)) @@ S

(***************************************************************************)
(* flatten_glyph                                                           *)
(***************************************************************************)
RECURSIVE FlatComps(_, _, _)
FlatComps(S, comps, l) ==
    Concat([k \in DOMAIN comps |->
        LET ri == InstAt(S[comps[k].b], l)
        IN IF Len(ri.comps) = 0 THEN <<comps[k]>>
           ELSE FlatComps(S, Sq([j \in DOMAIN ri.comps |->
                    [b |-> ri.comps[j].b, t |-> Compose(comps[k].t, ri.comps[j].t)]]), l)])
FlattenGlyph(S, g) ==
    IF Len(g.src[0].comps) = 0 THEN g
    ELSE [g EXCEPT !.src = Fn([l \in DOMAIN g.src |-> [g.src[l] EXCEPT !.comps = FlatComps(S, @, l)]])]

\* a loop `for glyph_name in glyph_order.names()` that updates the context as it goes
FoldOrder(S, ord, F(_, _)) ==
    LET R[i \in 0..Len(ord)] == IF i = 0 THEN S ELSE F(R[i - 1], ord[i]) IN R[Len(ord)]
DecomposeAll(S, ord) ==
    FoldOrder(S, ord, LAMBDA T, id : IF Len(T[id].src[0].comps) > 0 THEN [T EXCEPT ![id] = ConvGlyph(T, T[id])] ELSE T)
DecomposeTransformed(S, ord) ==
    FoldOrder(S, ord, LAMBDA T, id : IF NonId2x2(T[id]) THEN [T EXCEPT ![id] = ConvGlyph(T, T[id])] ELSE T)
FlattenAll(S, ord) ==
    FoldOrder(S, ord, LAMBDA T, id : [T EXCEPT ![id] = FlattenGlyph(T, T[id])])

(***************************************************************************)
(* The case generator                                                      *)
(***************************************************************************)
\* minimal standard generator (Lehmer, a = 16807, m = 2^31 - 1) by Schrage's method: stays within 32 bits
Rand(x) == LET t == 16807 * (x % 127773) - 2836 * (x \div 127773) IN IF t > 0 THEN t ELSE t + 2147483647
NDraws == 72
RECURSIVE StreamR(_, _, _)
StreamR(x, n, acc) == IF n = 0 THEN acc ELSE LET y == Rand(x) IN StreamR(y, n - 1, Append(acc, y))
Stream(k) ==
    LET x0 == 1 + ((Seed * 65537 + k * 7919) % 2147483646)
    IN StreamR(Rand(Rand(Rand(x0))), NDraws, <<>>)
Pick(r, n) == (r \div 64) % n

Shape(s) == CASE s = 0 -> << <<1, 3>>, <<101, 7>>, <<21, 63>> >>
              [] s = 1 -> << <<11, 11>>, <<91, 21>>, <<81, 71>>, <<3, 51>> >>
              [] s = 2 -> << <<5, 0>>, <<45, 0>>, <<45, 31>>, <<25, 55>>, <<5, 31>> >>
              [] OTHER -> << <<3, 51>>, <<81, 71>>, <<91, 21>>, <<11, 11>> >>       \* clockwise
\* per-location movement of point j (location 1 is NOT the midpoint: an intermediate layer matters)
PtShift(l, j) == CASE l = 0 -> <<0, 0>> [] l = 2 -> <<2 * j + 10, j + 4>> [] OTHER -> <<j + 3, 2>>
ContourAt(i, n, s, l) ==
    Sq([j \in 1..Len(Shape(s)) |-> << U * (Shape(s)[j][1] + 7 * i + 40 * (n - 1) + PtShift(l, j)[1]),
                                      U * (Shape(s)[j][2] + 3 * i + PtShift(l, j)[2]) >>])
Kind2x2(t) == CASE t \in {0, 1, 2, 3} -> <<U, 0, 0, U>>                  \* 0: identity, 1..3: translate
                [] t \in {4, 5} -> <<2 * U, 0, 0, 2 * U>>                 \* scale 2
                [] t \in {6, 7} -> <<U \div 2, 0, 0, U \div 2>>           \* scale 1/2
                [] t \in {8, 9} -> <<-U, 0, 0, U>>                        \* flip x
                [] t \in {10, 11} -> <<0, U, -U, 0>>                      \* rotate 90 degrees
                [] OTHER -> <<3 * U, 0, 0, 3 * U>>                        \* scale 3: outside F2Dot14
KindName(t) == CASE t = 0 -> "id" [] t \in {1, 2, 3} -> "tr" [] t \in {4, 5} -> "s2" [] t \in {6, 7} -> "sh"
                 [] t \in {8, 9} -> "fx" [] t \in {10, 11} -> "r90" [] OTHER -> "s3"
Off0(n) == << <<0, 0>>, <<10, 0>>, <<-15, 7>>, <<33, -20>>, <<101, 50>>, <<7, 13>> >>[n + 1]
OffD(n) == << <<0, 0>>, <<20, 0>>, <<-9, 11>>, <<6, -4>> >>[n + 1]
\* offset of a component at location l, times 2 (so that the middle stays an integer before scaling by U/2)
Off2At(t, a, d, l) ==
    IF t = 0 THEN <<0, 0>>
    ELSE CASE l = 0 -> <<2 * Off0(a)[1], 2 * Off0(a)[2]>>
           [] l = 2 -> <<2 * (Off0(a)[1] + OffD(d)[1]), 2 * (Off0(a)[2] + OffD(d)[2])>>
           [] OTHER -> <<2 * Off0(a)[1] + OffD(d)[1] + 26, 2 * Off0(a)[2] + OffD(d)[2] - 10>>  \* midpoint + (13,-5)
CompAt(b, t, a, d, l) ==
    [b |-> b, t |-> Kind2x2(t) \o << (U \div 2) * Off2At(t, a, d, l)[1], (U \div 2) * Off2At(t, a, d, l)[2] >>]

GenCase(k) ==
    LET r == Stream(k)
        G(i, j) == r[8 + 16 * (i - 1) + j]
        nl == << 1, 2, 3, 3 >>[Pick(r[1], 4) + 1]
        alias == Pick(r[2], 8) = 0
        kind(i) == IF i = 4 THEN (IF Pick(G(i, 1), 8) = 0 THEN "mixed" ELSE "simple")
                   ELSE << "simple", "composite", "composite", "composite", "composite", "mixed", "mixed", "mixed" >>[Pick(G(i, 1), 8) + 1]
        exp(i) == i = 1 \/ Pick(G(i, 2), 3) # 0
        mid(i) == nl = 3 /\ Pick(G(i, 3), 3) = 0
        locs(i) == IF nl = 1 THEN {0} ELSE IF mid(i) THEN {0, 1, 2} ELSE {0, 2}
        ncont(i) == IF kind(i) = "composite" THEN 0 ELSE 1 + Pick(G(i, 4), 2)
        ncomp(i) == IF kind(i) = "simple" THEN 0 ELSE IF i = 4 THEN 1 ELSE 1 + Pick(G(i, 7), 2)
        \* component n of glyph i: a later glyph, or (1 in 16, and always for glyph 4) the missing glyph 0
        base(i, n) == IF i = 4 \/ Pick(G(i, 4 + 4 * n) \div 1024, 16) = 0 THEN 0
                      ELSE i + 1 + Pick(G(i, 4 + 4 * n), 4 - i)
        tk(i, n) == Pick(G(i, 5 + 4 * n), 13)
        w(i, l) == LET w0 == 300 + 60 * i + 10 * Pick(G(i, 16), 5)
                       w2 == w0 + 20 * Pick(G(i, 16) \div 1024, 3)
                   IN CASE l = 0 -> U * w0 [] l = 2 -> U * w2 [] OTHER -> (U \div 2) * (w0 + w2 + 14)
        inst(i, l) ==
            [w |-> w(i, l),
             cs |-> Sq([n \in 1..ncont(i) |-> ContourAt(i, n, Pick(G(i, 4 + n), 4), l)]),
             comps |-> Sq([n \in 1..ncomp(i) |->
                          CompAt(base(i, n), tk(i, n), Pick(G(i, 6 + 4 * n), 6), Pick(G(i, 7 + 4 * n), 4), l)])]
        src == Sq([i \in 1..4 |-> WithFlags([exp |-> exp(i), ovf |-> FALSE, src |-> Fn([l \in locs(i) |-> inst(i, l)])])])
        alllocs == UNION {locs(i) : i \in 1..4}
        expids == {i \in 1..4 : src[i].exp}
    IN [k |-> k, nloc |-> nl, locs |-> alllocs, src |-> src,
        exp |-> Fn([x \in expids \X alllocs |-> [bag |-> Bag(Resolve(src, x[1], x[2])), w |-> InstAt(src[x[1]], x[2]).w]]),
        names |-> Sq([i \in 1..4 |-> IF i = 4 /\ alias THEN "g1.0" ELSE "g" \o ToString(i)]),
        kinds |-> Sq([i \in 1..4 |-> [kind |-> kind(i),
                                      tks |-> Sq([n \in 1..ncomp(i) |-> KindName(tk(i, n))])]])]

ExportIds(cs) == {i \in 1..4 : cs.src[i].exp}
LocSeq(L) == SelectSeq(<<0, 1, 2>>, LAMBDA l : l \in L)
\* the domain: no glyph contains the same contour twice (two instantiations of one leaf with the same
\* accumulated transform); convert_components_to_contours merges such duplicates (its `visited` set)
Valid(cs) == \A x \in DOMAIN cs.exp : \A y \in DOMAIN cs.exp[x].bag : cs.exp[x].bag[y] = 1

(***************************************************************************)
(* Gaps: states in which the spec itself does not keep the property        *)
(***************************************************************************)
PictureGaps(S, step) ==
    LET bad == {x \in DOMAIN c.exp : Bag(Resolve(S, x[1], x[2])) # c.exp[x].bag}
        badw == {x \in DOMAIN c.exp : InstAt(S[x[1]], x[2]).w # c.exp[x].w}
        Seq2(T, kind) == LET RECURSIVE F(_) F(X) == IF X = {} THEN <<>> ELSE
                                LET x == CHOOSE y \in X : \A z \in X : y[1] < z[1] \/ (y[1] = z[1] /\ y[2] <= z[2])
                                IN <<[step |-> step, kind |-> kind, id |-> x[1], loc |-> x[2]]>> \o F(X \ {x})
                         IN F(T)
    IN Seq2(bad, "picture") \o Seq2(badw, "advance")

\* what the back end needs from the final store (CheckedGlyph::new, create_component_ref_gid)
FinalGaps(S, ord) ==
    LET ids == Range(ord)
        G(kind, P(_)) == LET F[i \in 0..Len(ord)] ==
                                IF i = 0 THEN <<>> ELSE F[i - 1] \o
                                    (IF P(ord[i]) THEN <<[step |-> "final", kind |-> kind, id |-> ord[i], loc |-> 0]>> ELSE <<>>)
                         IN F[Len(ord)]
    IN G("mixed-left", LAMBDA i : Mixed(S[i]))
       \o G("unencodable-2x2", LAMBDA i : Overflow(S[i]))
       \o G("dangling-component", LAMBDA i : ~(CompIds(S[i]) \subseteq ids))

(***************************************************************************)
(* Behaviours                                                              *)
(***************************************************************************)
OptsOf(m) == [fl |-> (m % 2) = 1, de |-> ((m \div 2) % 2) = 1, dt |-> ((m \div 4) % 2) = 1, ps |-> ((m \div 8) % 2) = 1]
MaskOf(x) == (IF x.fl THEN 1 ELSE 0) + (IF x.de THEN 2 ELSE 0) + (IF x.dt THEN 4 ELSE 0) + (IF x.ps THEN 8 ELSE 0)

Init ==
    \E k \in First..(First + Count - 1) :
        /\ c = [k |-> k]
        /\ o = OptsOf(0)
        /\ st = <<>>
        /\ nm = <<>>
        /\ order = <<>>
        /\ todo = <<>>
        /\ gaps = <<>>
        /\ pc = "gen"

\* generate the case (cases outside the domain Valid end here) ...
StepGen ==
    /\ pc = "gen"
    /\ c' = GenCase(c.k)
    /\ pc' = (IF Valid(c') THEN "opts" ELSE "invalid")
    /\ UNCHANGED <<o, st, nm, order, todo, gaps>>
\* ... and build it under every option subset
StepOpts ==
    /\ pc = "opts"
    /\ \E m \in 0..15 : o' = OptsOf(m)
    /\ st' = c.src
    /\ nm' = c.names
    /\ pc' = "prune"
    /\ UNCHANGED <<c, order, todo, gaps>>

StepPrune ==
    /\ pc = "prune"
    /\ st' = Prune(st)
    /\ gaps' = gaps \o PictureGaps(st', "prune")
    /\ pc' = "inline"
    /\ UNCHANGED <<c, o, nm, order, todo>>

StepInline ==
    /\ pc = "inline"
    /\ st' = InlineAll(st)
    /\ gaps' = gaps \o PictureGaps(st', "inline")
    \* non-exported glyphs leave the glyph order
    /\ order' = SelectSeq(<<1, 2, 3, 4>>, LAMBDA i : st[i].exp)
    /\ pc' = "todo"
    /\ UNCHANGED <<c, o, nm, todo>>

\* the todo list of GlyphOrderWork::exec (glyphs as they are after inlining)
TodoOf(S, ord, ps) ==
    LET F[i \in 0..Len(ord)] ==
            IF i = 0 THEN <<>>
            ELSE LET g == S[ord[i]]
                 IN F[i - 1] \o (IF ~Consistent2x2(g) \/ g.ovf THEN << <<"conv", ord[i]>> >>
                                ELSE IF Mixed(g) THEN << <<(IF ps THEN "conv" ELSE "split"), ord[i]>> >>
                                ELSE <<>>)
    IN F[Len(ord)]
StepTodo ==
    /\ pc = "todo"
    \* every non-export component has been inlined: the `convert` loop over such references is dead
    /\ Assert(\A i \in Range(order) : CompIds(st[i]) \subseteq Range(order), "component outside the glyph order")
    /\ todo' = TodoOf(st, order, o.ps)
    /\ pc' = "fix"
    /\ UNCHANGED <<c, o, st, nm, order, gaps>>

\* one iteration of resolve_inconsistencies
StepFix ==
    /\ pc = "fix"
    /\ IF Len(todo) = 0
       THEN /\ pc' = (IF o.de THEN "opt_de" ELSE IF o.dt THEN "opt_dt" ELSE IF o.fl THEN "opt_fl" ELSE "final")
            /\ UNCHANGED <<st, nm, order, todo, gaps>>
       ELSE LET op == Head(todo)[1]
                id == Head(todo)[2]
                pending == {todo[i][2] : i \in DOMAIN todo}
            IN IF Reach(st, st[id]) \cap pending # {}
               THEN /\ todo' = Tail(todo) \o <<Head(todo)>>          \* not yet: something below still needs fixing
                    /\ UNCHANGED <<st, nm, order, gaps, pc>>
               ELSE /\ todo' = Tail(todo)
                    /\ pc' = pc
                    /\ IF op = "conv"
                       THEN /\ st' = [st EXCEPT ![id] = ConvGlyph(st, st[id])]
                            /\ UNCHANGED <<nm, order>>
                       ELSE /\ st' = SplitStore(st, id)
                            /\ nm' = ((id + 4) :> NameFor(nm[id], {nm[i] : i \in Range(order)})) @@ nm
                            /\ order' = order \o <<id + 4>>
                    /\ gaps' = gaps \o PictureGaps(st', IF op = "conv" THEN "convert" ELSE "split")
                                \o (IF op = "split" /\ NameCollision(nm[id], order, st, nm)
                                    THEN <<[step |-> "split", kind |-> "name-collision", id |-> id, loc |-> 0]>> ELSE <<>>)
    /\ UNCHANGED <<c, o>>

StepDecompose ==
    /\ pc = "opt_de"
    /\ st' = DecomposeAll(st, order)
    /\ gaps' = gaps \o PictureGaps(st', "decompose")
    /\ pc' = "final"                  \* "the rest of the flags can be ignored"
    /\ UNCHANGED <<c, o, nm, order, todo>>

StepDecomposeTransformed ==
    /\ pc = "opt_dt"
    /\ st' = DecomposeTransformed(st, order)
    /\ gaps' = gaps \o PictureGaps(st', "decompose_transformed")
    /\ pc' = (IF o.fl THEN "opt_fl" ELSE "final")
    /\ UNCHANGED <<c, o, nm, order, todo>>

StepFlatten ==
    /\ pc = "opt_fl"
    /\ st' = FlattenAll(st, order)
    /\ gaps' = gaps \o PictureGaps(st', "flatten")
    /\ pc' = "final"
    /\ UNCHANGED <<c, o, nm, order, todo>>

StepFinal ==
    /\ pc = "final"
    /\ gaps' = gaps \o FinalGaps(st, order)
    /\ pc' = "done"
    /\ UNCHANGED <<c, o, st, nm, order, todo>>

Next == StepGen \/ StepOpts \/ StepPrune \/ StepInline \/ StepTodo \/ StepFix \/ StepDecompose \/ StepDecomposeTransformed
        \/ StepFlatten \/ StepFinal
Spec == Init /\ [][Next]_vars

(***************************************************************************)
(* Invariants                                                              *)
(***************************************************************************)
\* THE PROPERTY on the spec (fails only with StopOnGap = TRUE; otherwise the gaps go to the harness)
NoSpecGap == StopOnGap => gaps = <<>>

\* the level-wise and the accumulated definition of the picture agree on every source
ResolveForms ==
    pc = "opts" => \A x \in DOMAIN c.exp :
        LET rt == ResolveT(c.src, x[1], x[2], Id6, 0, U)
        IN Bag(Sq([j \in DOMAIN rt |-> rt[j].p])) = c.exp[x].bag

\* internal consistency of the final store
FinalShape ==
    pc = "done" => /\ \A i \in Range(order) : i \in DOMAIN st /\ st[i].exp /\ 0 \in DOMAIN st[i].src
                   /\ Cardinality({nm[i] : i \in Range(order)}) = Len(order)
                   /\ (o.de => \A i \in Range(order) : CompIds(st[i]) = {})
                   /\ (o.dt => \A i \in Range(order) : ~NonId2x2(st[i]))
                   /\ (o.fl => \A i \in Range(order) : \A x \in CompIds(st[i]) : CompIds(st[x]) = {})

(***************************************************************************)
(* REPLAY output                                                           *)
(***************************************************************************)
NameOfBase(b) == IF b \in DOMAIN nm THEN nm[b] ELSE "missing"
InstJson(inst) == [w |-> inst.w, cs |-> inst.cs,
                   comps |-> [k \in DOMAIN inst.comps |->
                        [b |-> IF inst.comps[k].b \in DOMAIN c.names THEN c.names[inst.comps[k].b] ELSE "missing",
                         t |-> inst.comps[k].t]]]
CaseJson ==
    [k |-> c.k, seed |-> Seed, nloc |-> c.nloc, locs |-> LocSeq(c.locs), unit |-> U,
     glyphs |-> [i \in 1..4 |->
        [name |-> c.names[i], exp |-> c.src[i].exp, kind |-> c.kinds[i].kind, tks |-> c.kinds[i].tks,
         layers |-> [n \in DOMAIN LocSeq(DOMAIN c.src[i].src) |->
                        LET l == LocSeq(DOMAIN c.src[i].src)[n] IN [l |-> l] @@ InstJson(c.src[i].src[l])]]],
     expect |-> [n \in DOMAIN SelectSeq(<<1, 2, 3, 4>>, LAMBDA i : c.src[i].exp) |->
        LET i == SelectSeq(<<1, 2, 3, 4>>, LAMBDA j : c.src[j].exp)[n]
        IN [name |-> c.names[i],
            at |-> [q \in DOMAIN LocSeq(c.locs) |->
                      LET l == LocSeq(c.locs)[q]
                      IN [l |-> l, own |-> l \in DOMAIN c.src[i].src, w |-> InstAt(c.src[i], l).w,
                          cs |-> ResolveT(c.src, i, l, Id6, 0, U)]]]]]
RunJson ==
    [k |-> c.k, mask |-> MaskOf(o),
     order |-> [n \in DOMAIN order |-> nm[order[n]]],
     store |-> [n \in DOMAIN order |->
        LET g == st[order[n]]
        IN [name |-> nm[order[n]],
            locs |-> LocSeq(DOMAIN g.src),
            ncs |-> Len(g.src[0].cs),
            comps |-> [k \in DOMAIN g.src[0].comps |-> [b |-> NameOfBase(g.src[0].comps[k].b), t |-> g.src[0].comps[k].t]]]],
     gaps |-> [n \in DOMAIN gaps |-> [gaps[n] EXCEPT !.id = NameOfBase(@)]]]

Emit ==
    /\ pc = "opts" => PrintT(<<"CASE", ToJson(CaseJson)>>)
    /\ pc = "invalid" => PrintT(<<"INVALID", ToJson([k |-> c.k])>>)
    /\ pc = "done" => PrintT(<<"RUN", ToJson(RunJson)>>)
=============================================================================
