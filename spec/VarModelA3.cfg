\* C07 generator + design-level check, 3 axes.
\* Masters: the origin plus every set of KMin..KMax (<= MaxPts = 4) non-origin points of the grid
\* {k/1 : k in -GridMax..GridMax}^3 (17 902 sets).
\* Sub-enumeration/sampling and seed come from the environment (defaults = everything):
\*   VM_KMIN VM_KMAX (set sizes), VM_STRIDE[k] VM_OFFSET (of the sets with k points keep (Hash+Offset) % Stride[k] = 0), VM_SEED
\*   (input order, value columns, sub-definition).
\* Per input: value columns = one unit vector per master + 4 (linear, odd, pseudo-random, odd halves);
\* definitions = all masters (+ one proper sub-set containing the origin when there are >= 3 masters);
\* each with RoundingBehaviour::None and ::RoundTiesEven.
\* Probes = TRUE: ScalarIn01 also at every grid point (otherwise at the master locations only).
CONSTANTS
  NAxes = 3
  GridMax = 1
  GridDen = 1
  MaxPts = 4
  Probes = TRUE
INIT Init
NEXT Next
CHECK_DEADLOCK FALSE
INVARIANTS
  Emit
  TentValid
  ScalarIn01
  LaterDoesNotInfluenceEarlier
  Reproduces
  DefaultExact
  OrderIndependent
