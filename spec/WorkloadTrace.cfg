\* Trace validation of one recorded build: env GRAPH (constants) + TRACE (events).
\* Success = "Invariant NotAccepted is violated" (the trace was consumed to its end) with no
\* other invariant violated on the way.  Run with -workers 1 and the StateDeque (depth-first) queue.
SPECIFICATION TraceSpec
INVARIANTS
  TypeOK NoSchedulerPanic NoUnable OrderOK ReadsFromCanonical StagesDisjoint AlsoNeverRuns
  SuccessImpliesRan DoneMeansAll ErrorReported CountersExactUnlessAbort
  NotAccepted
CONSTRAINT Progress
POSTCONDITION ReportProgress
CHECK_DEADLOCK FALSE
