------------------------------ MODULE Kerning ------------------------------
(***************************************************************************)
(* C09  Kerning in the font equals the source kerning at every master.     *)
(*                                                                         *)
(* Three parts:                                                            *)
(*  (A) the ORACLE  UfoLookup(master, l, r): the UFO kerning value lookup  *)
(*      algorithm on that master's own kerning.plist / groups.plist        *)
(*      (glyph-glyph, glyph-group, group-glyph, group-group, else 0);      *)
(*  (B) a TRANSCRIPTION of what fontc does with the kerning of all         *)
(*      masters (fontbe/src/features/kern.rs build_variable_kern_          *)
(*      adjustments + lookup_kerning_value, fontbe/src/features.rs         *)
(*      resolve_variable_metric, fontbe/src/orchestration.rs KernPair      *)
(*      ordering / add_to, write-fonts PairPosBuilder) giving an abstract  *)
(*      PairPos lookup (a list of format-1 and format-2 subtables), and    *)
(*      the GPOS PairPos SEMANTICS (ApplySubs) evaluated on it;            *)
(*  (C) a generator of sources (stage machine) usable both breadth-first   *)
(*      (exhaustive for small constants) and with `tlc -simulate` (seeded  *)
(*      sample of large constants), and a reader of cases from an ndjson   *)
(*      file (repository fixtures: oracle only; --replay: with model).     *)
(*                                                                         *)
(* Design-level property (DesignOk): FontKern(l,r,m) = Round(UfoLookup(m,  *)
(* l,r)) for all ordered pairs and all kerning masters.  It is evaluated   *)
(* by TLC for every case and printed with the case (field designOk); the   *)
(* check replays every case with designOk = FALSE into the real compiler:  *)
(* only the real font decides.                                             *)
(*                                                                         *)
(* Values are integers over the common denominator Den (Den = 2: half      *)
(* units), Round(v) = floor(v/Den + 1/2) (OtRound).                        *)
(***************************************************************************)
EXTENDS Integers, Sequences, FiniteSets, TLC, Json, IOUtils

CONSTANTS
    Source,      \* "gen" (stage machine below) | "file" (ndjson file named by env C09_CASES)
    NGlyphs,     \* generated sources have the first NGlyphs glyphs of <<"a","b","c","d">> (in this glyph order)
    Names1,      \* group names available on side 1 (public.kern1.*)
    Names2,      \* group names available on side 2 (public.kern2.*)
    NMasters,    \* set of master counts, e.g. {2, 3}
    DefaultAt,   \* set of positions the default master may take ("first" and/or "middle")
    MaxEntries,  \* kerning entries per master
    MaxTotal,    \* kerning entries over all masters
    PosVals,     \* kerning values >= 0 (numerators over Den)
    NegVals,     \* absolute values of the negative kerning values (the .cfg grammar has no negative numbers)
    Den,         \* common denominator of the values
    SameBias     \* TRUE: a later master copies the previous master's groups of a side in one of two branches

VARIABLES stage, todo, pend, c

Vals == PosVals \cup {0 - v : v \in NegVals}
GlyphSeq == SubSeq(<<"a", "b", "c", "d">>, 1, NGlyphs)
\* every group name a generated source may use, in the byte order Rust's BTreeMap iterates them
NameOrder == <<"A", "A_1", "A_2", "A_3", "B", "B_1", "B_2", "B_3">>
ASSUME (Names1 \cup Names2) \subseteq {NameOrder[i] : i \in 1..Len(NameOrder)}
vars == <<stage, todo, pend, c>>

(***************************************************************************)
(* Case vocabulary                                                         *)
(*  case   = [glyphs: Seq(name), dflt: index, den: Nat, model: BOOLEAN,    *)
(*            ms: Seq(master)]   (masters in increasing axis position)     *)
(*  master = [g1: [glyph -> group name or ""], g2: likewise,               *)
(*            kern: [key -> Int]],  key = <<lk, ln, rk, rn>>,              *)
(*            lk, rk \in {"g","c"}: glyph / class (group) name             *)
(***************************************************************************)
NoKern == [k \in {} |-> 0]

Round(v, den) == (2 * v + den) \div (2 * den)

(***************************************************************************)
(* (A) THE ORACLE: UFO kerning value lookup algorithm, on one master        *)
(* https://unifiedfontobject.org/versions/ufo3/kerning.plist/              *)
(***************************************************************************)
UfoLookup(m, l, r) ==
    LET K  == m.kern
        D  == DOMAIN K
        gl == m.g1[l]
        gr == m.g2[r]
        k1 == <<"g", l, "g", r>>
        k2 == <<"g", l, "c", gr>>
        k3 == <<"c", gl, "g", r>>
        k4 == <<"c", gl, "c", gr>>
    IN IF k1 \in D THEN K[k1]
       ELSE IF gr # "" /\ k2 \in D THEN K[k2]
       ELSE IF gl # "" /\ k3 \in D THEN K[k3]
       ELSE IF gl # "" /\ gr # "" /\ k4 \in D THEN K[k4]
       ELSE 0

(***************************************************************************)
(* (B) TRANSCRIPTION                                                       *)
(***************************************************************************)
\* kern.rs lookup_kerning_value: sides are a glyph or a group *name*
Lkv(m, lk, ln, rk, rn) ==
    LET K  == m.kern
        D  == DOMAIN K
        fg == IF lk = "g" THEN m.g1[ln] ELSE ln        \* get_group_if_glyph(first)
        sg == IF rk = "g" THEN m.g2[rn] ELSE rn
        e  == <<lk, ln, rk, rn>>
        c2 == <<"g", ln, "c", sg>>
        c3 == <<"c", fg, "g", rn>>
        c4 == <<"c", fg, "c", sg>>
    IN IF e \in D THEN K[e]
       ELSE IF lk = "g" /\ sg # "" /\ c2 \in D THEN K[c2]
       ELSE IF fg # "" /\ rk = "g" /\ c3 \in D THEN K[c3]
       ELSE IF fg # "" /\ sg # "" /\ c4 \in D THEN K[c4]
       ELSE 0

GSide(g) == [k |-> "g", g |-> g, mem |-> {}]
CSide(M) == [k |-> "c", g |-> "", mem |-> M]

RECURSIVE SortInts(_)
SortInts(S) ==
    IF S = {} THEN <<>>
    ELSE LET m == CHOOSE p \in S : \A q \in S : p <= q
         IN <<m>> \o SortInts(S \ {m})

\* write-fonts ClassPairPosBuilder::insert over the sorted class pairs
CanAdd(classes, cls) == cls \in classes \/ \A k \in classes : k \cap cls = {}

RECURSIVE BuildCls(_, _)
BuildCls(seq, acc) ==
    IF seq = <<>> THEN acc
    ELSE LET p == Head(seq)
             n == Len(acc)
         IN IF n > 0 /\ CanAdd(acc[n].c1, p.e1.mem) /\ CanAdd(acc[n].c2, p.e2.mem)
            THEN BuildCls(Tail(seq), [acc EXCEPT ![n] = [fmt |-> 2, c1 |-> @.c1 \cup {p.e1.mem},
                                                          c2 |-> @.c2 \cup {p.e2.mem},
                                                          items |-> @.items \cup {p}]])
            ELSE BuildCls(Tail(seq), Append(acc, [fmt |-> 2, c1 |-> {p.e1.mem}, c2 |-> {p.e2.mem},
                                                  items |-> {p}]))

(***************************************************************************)
(* GPOS PairPos semantics on an abstract lookup (sequence of subtables):   *)
(* the first subtable that matches ends the lookup.                        *)
(*  format 1 matches iff the first glyph is covered and its PairSet lists  *)
(*           the second glyph (otherwise the next subtable is tried);      *)
(*  format 2 matches iff the first glyph is covered; a second glyph of     *)
(*           class 0 / a class pair without a record gives 0 and still     *)
(*           ends the lookup.                                              *)
(***************************************************************************)
RECURSIVE ApplySubs(_, _, _, _)
ApplySubs(subs, l, r, i) ==
    IF subs = <<>> THEN 0
    ELSE LET t == Head(subs)
         IN IF t.fmt = 1
            THEN IF <<l, r>> \in DOMAIN t.pairs THEN t.pairs[<<l, r>>][i]
                 ELSE ApplySubs(Tail(subs), l, r, i)
            ELSE IF \E k \in t.c1 : l \in k
                 THEN LET hits == {p \in t.items : l \in p.e1.mem /\ r \in p.e2.mem}
                      IN IF hits = {} THEN 0 ELSE (CHOOSE p \in hits : TRUE).val[i]
                 ELSE ApplySubs(Tail(subs), l, r, i)

Eval(cs) ==
    LET GSeq == cs.glyphs
        NG   == Len(GSeq)
        GS   == {GSeq[i] : i \in 1..NG}
        gid  == [g \in GS |-> CHOOSE i \in 1..NG : GSeq[i] = g]
        MS   == cs.ms
        den  == cs.den
        \* ufo2fontir KerningLocationsWork: the default master and every master with a non-empty kerning.plist
        KS   == {i \in DOMAIN MS : i = cs.dflt \/ DOMAIN MS[i].kern # {}}
        \* masters that define kerning (what the property statement quantifies over)
        PM   == {i \in DOMAIN MS : DOMAIN MS[i].kern # {}}
        Grp(i, s, g) == IF s = 1 THEN MS[i].g1[g] ELSE MS[i].g2[g]

        \* ---- kern.rs SideState
        Kerned(i, s) == IF s = 1 THEN {k[2] : k \in {q \in DOMAIN MS[i].kern : q[1] = "c"}}
                                 ELSE {k[4] : k \in {q \in DOMAIN MS[i].kern : q[3] = "c"}}
        KMap(i, s, g) == IF Grp(i, s, g) \in Kerned(i, s) THEN Grp(i, s, g) ELSE ""
        Sig(s, g) == [i \in KS |-> KMap(i, s, g)]
        AllMembers(s, n) == {g \in GS : \E i \in KS : Grp(i, s, g) = n}
        Divergent(s, g) == \E i \in KS, j \in KS : Grp(i, s, g) # Grp(j, s, g)
        IsRefined(s, n) == \E g \in AllMembers(s, n) : Divergent(s, g)
        Refined(s, n) == {{g \in AllMembers(s, n) : Sig(s, g) = Sig(s, h)} : h \in AllMembers(s, n)}
        \* ---- refine_divergent_groups: names of the refined classes (cosmetic: they never reach the font, but the
        \* output classes are a map from NAME to members, so the names have to be unique on a side).  Groups in name
        \* order (BTreeMap), the classes of a group in member order; the class whose members hold the group in every
        \* master ("loyal") keeps the group's name -- failing that the first new one does -- the rest get the first free
        \* <group>_<n>; `taken` starts with every group name of the side; a class two groups refine to is named once.
        GroupNames(s) == {Grp(i, s, g) : i \in KS, g \in GS} \ {""}
        RefGroups(s) == {n \in GroupNames(s) : IsRefined(s, n)}
        Rank(n) == CHOOSE i \in 1..Len(NameOrder) : NameOrder[i] = n
        RECURSIVE SortNames(_)
        SortNames(S) == IF S = {} THEN <<>>
                        ELSE LET m == CHOOSE x \in S : \A y \in S : Rank(x) <= Rank(y)
                             IN <<m>> \o SortNames(S \ {m})
        SetLessN(A, B) ==          \* BTreeSet<&GlyphName>: lexicographic (glyph names a..d sort like their ids)
            /\ A # B
            /\ LET D == (A \ B) \cup (B \ A)
                   x == CHOOSE y \in D : \A z \in D : gid[y] <= gid[z]
               IN IF x \in A THEN \E y \in B : gid[y] > gid[x]
                             ELSE ~ \E y \in A : gid[y] > gid[x]
        RECURSIVE SortSets(_)
        SortSets(S) == IF S = {} THEN <<>>
                       ELSE LET m == CHOOSE x \in S : \A y \in S \ {x} : SetLessN(x, y)
                            IN <<m>> \o SortSets(S \ {m})
        Loyal(s, G, M) == \A i \in KS : Sig(s, CHOOSE x \in M : TRUE)[i] = G
        Synth(G, taken) ==
            LET nm(n) == G \o "_" \o ToString(n)
            IN nm(CHOOSE n \in 1..12 : nm(n) \notin taken /\ \A k \in 1..(n - 1) : nm(k) \in taken)
        RECURSIVE ClassFold(_, _, _, _, _)
        ClassFold(s, G, cls, st, free) ==
            IF cls = <<>> THEN st
            ELSE LET M == Head(cls)
                 IN IF \E p \in st.ids : p[1] = M
                    THEN ClassFold(s, G, Tail(cls), st, free)               \* shared with an earlier group
                    ELSE LET nm == IF Loyal(s, G, M) \/ free THEN G ELSE Synth(G, st.taken)
                         IN ClassFold(s, G, Tail(cls),
                                      [taken |-> st.taken \cup {nm}, ids |-> st.ids \cup {<<M, nm>>}], FALSE)
        RECURSIVE NameFold(_, _, _)
        NameFold(s, seq, st) ==
            IF seq = <<>> THEN st
            ELSE LET G == Head(seq)
                 IN NameFold(s, Tail(seq),
                             ClassFold(s, G, SortSets(Refined(s, G)), st, ~ \E M \in Refined(s, G) : Loyal(s, G, M)))
        Naming(s) == NameFold(s, SortNames(RefGroups(s)), [taken |-> GroupNames(s), ids |-> {}])
        N1 == Naming(1)
        N2 == Naming(2)
        ClashOn(s, st) == \/ \E p \in st.ids, q \in st.ids : p # q /\ p[2] = q[2]
                          \/ \E p \in st.ids : p[2] \in GroupNames(s) \ RefGroups(s)
        NameClash == ClashOn(1, N1) \/ ClashOn(2, N2)
        GUnit(g) == [k |-> "g", g |-> g, mem |-> {}, nm |-> <<>>]
        Units(s, kind, name) ==
            IF kind = "g" THEN {GUnit(name)}
            ELSE IF AllMembers(s, name) = {} THEN {}
            ELSE IF IsRefined(s, name)
                 THEN {[k |-> "c", g |-> "", mem |-> M, nm |-> Sig(s, CHOOSE x \in M : TRUE)] : M \in Refined(s, name)}
                 ELSE {[k |-> "c", g |-> "", mem |-> AllMembers(s, name), nm |-> [i \in KS |-> name]]}
        \* resolve_units / resolve_pair
        UnitVal(u1, u2, i) ==
            IF (u1.k = "c" /\ u1.nm[i] = "") \/ (u2.k = "c" /\ u2.nm[i] = "") THEN 0
            ELSE Lkv(MS[i], u1.k, IF u1.k = "g" THEN u1.g ELSE u1.nm[i],
                            u2.k, IF u2.k = "g" THEN u2.g ELSE u2.nm[i])
        MkPair(u1, u2) == [e1 |-> [k |-> u1.k, g |-> u1.g, mem |-> u1.mem],
                           e2 |-> [k |-> u2.k, g |-> u2.g, mem |-> u2.mem],
                           raw |-> [i \in KS |-> UnitVal(u1, u2, i)]]
        AllKeys == UNION {DOMAIN MS[i].kern : i \in KS}
        PairsOfKey(key) ==
            IF key[1] = "g" /\ key[3] = "c"
            THEN \* glyph-to-class: resolved cell by cell over the members of the class in any master
                 {MkPair(GUnit(key[2]), GUnit(mb)) : mb \in AllMembers(2, key[4])}
            ELSE LET all == {MkPair(u1, u2) : u1 \in Units(1, key[1], key[2]), u2 \in Units(2, key[3], key[4])}
                 IN IF key[1] = "c" /\ key[3] = "c"
                    THEN {p \in all : \E i \in KS : p.raw[i] # 0}     \* zero class-class pairs override nothing
                    ELSE all
        IRP == UNION {PairsOfKey(key) : key \in AllKeys}
        \* insert_resolved: colliding pairs carry equal values (debug_assert in kern.rs)
        Conflict == \E p \in IRP, q \in IRP : p.e1 = q.e1 /\ p.e2 = q.e2 /\ p.raw # q.raw

        \* ---- features.rs resolve_variable_metric: round per master, then deltas (exact for these layouts)
        BEPall == {[e1 |-> p.e1, e2 |-> p.e2, val |-> [i \in KS |-> Round(p.raw[i], den)]] : p \in IRP}
        \* kern.rs split_kerns: class pairs whose value record is all zeros are dropped
        BEP == {p \in BEPall : ~(p.e1.k = "c" /\ p.e2.k = "c" /\ \A i \in KS : p.val[i] = 0)}
        IsVar(val) == \E i \in KS, j \in KS : val[i] # val[j]

        \* ---- orchestration.rs: KernSide / KernPair derive Ord (Glyph < Group; glyph ids; IntSet = lexicographic)
        SetLess(A, B) ==
            /\ A # B
            /\ LET D == (A \ B) \cup (B \ A)
                   x == CHOOSE y \in D : \A z \in D : gid[y] <= gid[z]
               IN IF x \in A THEN \E y \in B : gid[y] > gid[x]
                             ELSE ~ \E y \in A : gid[y] > gid[x]
        SideLess(e, f) ==
            IF e.k = "g" /\ f.k = "g" THEN gid[e.g] < gid[f.g]
            ELSE IF e.k = "g" THEN TRUE
            ELSE IF f.k = "g" THEN FALSE
            ELSE SetLess(e.mem, f.mem)
        PairLess(p, q) == SideLess(p.e1, q.e1) \/ (p.e1 = q.e1 /\ SideLess(p.e2, q.e2))
        RECURSIVE SortPairs(_)
        SortPairs(S) ==
            IF S = {} THEN <<>>
            ELSE LET m == CHOOSE p \in S : \A q \in S \ {p} : PairLess(p, q)
                 IN <<m>> \o SortPairs(S \ {m})

        \* ---- KernPair::add_to + PairPosBuilder::insert_pair (first rule wins) over the sorted pairs:
        \* glyph-glyph pairs sort before class-glyph pairs, which are enumerated per member
        GG == {p \in BEP : p.e1.k = "g" /\ p.e2.k = "g"}
        CG == {p \in BEP : p.e1.k = "c" /\ p.e2.k = "g"}
        CC == {p \in BEP : p.e1.k = "c" /\ p.e2.k = "c"}
        GPKeys == {<<p.e1.g, p.e2.g>> : p \in GG} \cup UNION {{<<m, p.e2.g>> : m \in p.e1.mem} : p \in CG}
        GPVal(k) ==
            LET gg == {p \in GG : p.e1.g = k[1] /\ p.e2.g = k[2]}
                cg == {p \in CG : k[1] \in p.e1.mem /\ p.e2.g = k[2]}
            IN IF gg # {} THEN (CHOOSE p \in gg : TRUE).val
               ELSE (CHOOSE p \in cg : \A q \in cg \ {p} : SetLess(p.e1.mem, q.e1.mem)).val
        \* GlyphPairPosBuilder::build: one format-1 subtable per value format (x_advance < x_advance+device)
        StatKeys == {k \in GPKeys : ~IsVar(GPVal(k))}
        VarKeys  == {k \in GPKeys : IsVar(GPVal(k))}
        F1(keys, var) == IF keys = {} THEN <<>>
                         ELSE <<[fmt |-> 1, var |-> var, pairs |-> [k \in keys |-> GPVal(k)]]>>
        Lookup == F1(StatKeys, FALSE) \o F1(VarKeys, TRUE) \o BuildCls(SortPairs(CC), <<>>)

        \* ---- the adjustment a shaper applies between l and r at master i (one LTR lookup)
        FontKern(l, r, i) == ApplySubs(Lookup, l, r, i)
        Expect(l, r, i) == Round(UfoLookup(MS[i], l, r), den)

        KSeq == SortInts(KS)
        Mat(F(_, _, _)) == [n \in 1..Len(KSeq) |-> [a \in 1..NG |-> [b \in 1..NG |-> F(GSeq[a], GSeq[b], KSeq[n])]]]
        exp == Mat(Expect)
        model == IF cs.model THEN Mat(FontKern) ELSE <<>>
        \* input-derived: two different output classes of one side share a glyph
        Overlap == \E p \in CC, q \in CC :
                        \/ (p.e1.mem # q.e1.mem /\ p.e1.mem \cap q.e1.mem # {})
                        \/ (p.e2.mem # q.e2.mem /\ p.e2.mem \cap q.e2.mem # {})
        StructOf(t) == IF t.fmt = 1 THEN [fmt |-> 1, var |-> t.var, pairs |-> DOMAIN t.pairs]
                       ELSE [fmt |-> 2, c1 |-> t.c1, c2 |-> t.c2,
                             recs |-> {<<p.e1.mem, p.e2.mem>> : p \in t.items}]
    IN [name    |-> cs.name,
        glyphs  |-> GSeq,
        dflt    |-> cs.dflt,
        den     |-> den,
        masters |-> [i \in DOMAIN MS |->
                        [g1 |-> MS[i].g1, g2 |-> MS[i].g2,
                         kern |-> {<<k[1], k[2], k[3], k[4], MS[i].kern[k]>> : k \in DOMAIN MS[i].kern}]],
        ks      |-> KSeq,
        prop    |-> [n \in 1..Len(KSeq) |-> KSeq[n] \in PM],
        exp     |-> exp,
        model   |-> model,
        designOk |-> IF cs.model THEN model = exp /\ ~NameClash ELSE TRUE,
        conflict |-> IF cs.model THEN Conflict ELSE FALSE,
        nameClash |-> IF cs.model THEN NameClash ELSE FALSE,
        classNames |-> IF cs.model THEN <<N1.ids, N2.ids>> ELSE <<>>,
        overlap  |-> IF cs.model THEN Overlap ELSE FALSE,
        struct   |-> IF cs.model THEN [n \in 1..Len(Lookup) |-> StructOf(Lookup[n])] ELSE <<>>,
        nontrivial |-> \E n \in 1..Len(KSeq), a \in 1..NG, b \in 1..NG : exp[n][a][b] # 0]

(***************************************************************************)
(* (C) generator                                                           *)
(***************************************************************************)
Glyphs == {GlyphSeq[i] : i \in 1..Len(GlyphSeq)}
Assign(names) == [Glyphs -> names \cup {""}]
NoGroups == [g \in Glyphs |-> ""]

DefaultsFor(n) == {d \in 1..n : \/ ("first" \in DefaultAt /\ d = 1)
                               \/ ("middle" \in DefaultAt /\ n = 3 /\ d = 2)
                               \/ ("last" \in DefaultAt /\ n > 1 /\ d = n)}

Total(ms) == LET RECURSIVE Sum(_)
                 Sum(i) == IF i = 0 THEN 0 ELSE Cardinality(DOMAIN ms[i].kern) + Sum(i - 1)
             IN Sum(Len(ms))

KeysOf(m) ==
    LET lefts  == {<<"g", g>> : g \in Glyphs} \cup {<<"c", m.g1[g]>> : g \in {h \in Glyphs : m.g1[h] # ""}}
        rights == {<<"g", g>> : g \in Glyphs} \cup {<<"c", m.g2[g]>> : g \in {h \in Glyphs : m.g2[h] # ""}}
    IN {<<a[1], a[2], b[1], b[2]>> : a \in lefts, b \in rights}

EnvInt(name, dflt) == IF name \in DOMAIN IOEnv THEN atoi(IOEnv[name]) ELSE dflt
\* the environment may lower the bound on the total number of entries (quick tier)
MaxTot == EnvInt("C09_MAXTOTAL", MaxTotal)

FileCases == ndJsonDeserialize(IOEnv.C09_CASES)
FileCase(i) ==
    LET r == FileCases[i]
    IN [glyphs |-> r.glyphs, dflt |-> r.dflt, den |-> r.den, model |-> r.model, n |-> Len(r.masters),
        name |-> r.name,
        ms |-> [j \in 1..Len(r.masters) |->
                  [g1 |-> r.masters[j].g1, g2 |-> r.masters[j].g2,
                   kern |-> [k \in {<<e[1], e[2], e[3], e[4]>> : e \in {r.masters[j].kern[x] : x \in 1..Len(r.masters[j].kern)}}
                               |-> (CHOOSE e \in {r.masters[j].kern[x] : x \in 1..Len(r.masters[j].kern)} :
                                        <<e[1], e[2], e[3], e[4]>> = k)[5]]]]]

Init ==
    /\ todo = 0
    /\ pend = <<>>
    /\ IF Source = "file"
       THEN /\ stage = "done"
            /\ c \in {FileCase(i) : i \in 1..Len(FileCases)}
       ELSE /\ stage = "g1"
            /\ c \in {[glyphs |-> GlyphSeq, dflt |-> d, den |-> Den, model |-> TRUE, n |-> n, name |-> "", ms |-> <<>>] :
                         n \in NMasters, d \in 1..3}
            /\ c.dflt \in DefaultsFor(c.n)

Cur == Len(c.ms)

\* after the last entry of a master: next master or finished.  "fin" has the single successor "done", so that a
\* simulation run (which evaluates the invariants on every successor it generates) evaluates and prints exactly
\* the one source it has chosen, not its siblings.
Advance(ms) == IF Len(ms) = c.n THEN "fin" ELSE "g1"

\* Small steps (few successors each) keep `tlc -simulate` fast: groups are chosen glyph by glyph (todo = index
\* of the next glyph), an entry as pair kind, then key, then value (pend = the kind, then the key).
Next ==
    \/ /\ stage = "g1"                       \* side-1 groups of a new master
       /\ pend' = pend
       /\ \/ /\ Cur >= 1 /\ SameBias
             /\ c' = [c EXCEPT !.ms = Append(@, [g1 |-> c.ms[Cur].g1, g2 |-> NoGroups, kern |-> NoKern])]
             /\ stage' = "g2" /\ todo' = 0
          \/ /\ c' = [c EXCEPT !.ms = Append(@, [g1 |-> NoGroups, g2 |-> NoGroups, kern |-> NoKern])]
             /\ stage' = "g1free" /\ todo' = 1
    \/ /\ stage = "g1free"
       /\ pend' = pend
       /\ \E n \in Names1 \cup {""} : c' = [c EXCEPT !.ms[Cur].g1[GlyphSeq[todo]] = n]
       /\ IF todo = NGlyphs THEN stage' = "g2" /\ todo' = 0 ELSE stage' = stage /\ todo' = todo + 1
    \/ /\ stage = "g2"                       \* side-2 groups
       /\ pend' = pend
       /\ \/ /\ Cur >= 2 /\ SameBias
             /\ c' = [c EXCEPT !.ms[Cur].g2 = c.ms[Cur - 1].g2]
             /\ stage' = "k" /\ todo' = 0
          \/ /\ stage' = "g2free" /\ todo' = 1
             /\ c' = c
    \/ /\ stage = "g2free"
       /\ pend' = pend
       /\ \E n \in Names2 \cup {""} : c' = [c EXCEPT !.ms[Cur].g2[GlyphSeq[todo]] = n]
       /\ IF todo = NGlyphs THEN stage' = "k" /\ todo' = 0 ELSE stage' = stage /\ todo' = todo + 1
    \/ /\ stage = "k"                        \* number of kerning entries of this master
       /\ c' = c /\ pend' = pend
       /\ \E k \in 0..MaxEntries :
             /\ k + Total(c.ms) <= MaxTot
             /\ k <= Cardinality(KeysOf(c.ms[Cur]))
             /\ todo' = k
             /\ stage' = IF k = 0 THEN Advance(c.ms) ELSE "e"
    \/ /\ stage = "e"                        \* one more entry: the pair kind (each available kind equally likely) ...
       /\ \E lk \in {"g", "c"}, rk \in {"g", "c"} :
             /\ \E key \in KeysOf(c.ms[Cur]) \ DOMAIN c.ms[Cur].kern : key[1] = lk /\ key[3] = rk
             /\ pend' = <<lk, rk>>
       /\ c' = c /\ todo' = todo /\ stage' = "ek"
    \/ /\ stage = "ek"                       \* ... the key of that kind ...
       /\ \E key \in KeysOf(c.ms[Cur]) \ DOMAIN c.ms[Cur].kern :
             /\ key[1] = pend[1] /\ key[3] = pend[2]
             /\ pend' = key
       /\ c' = c /\ todo' = todo /\ stage' = "v"
    \/ /\ stage = "v"                        \* ... and its value
       /\ \E v \in Vals : c' = [c EXCEPT !.ms[Cur].kern = (pend :> v) @@ @]
       /\ pend' = <<>>
       /\ todo' = todo - 1
       /\ stage' = IF todo = 1 THEN Advance(c.ms) ELSE "e"

Fin == stage = "fin" /\ stage' = "done" /\ UNCHANGED <<todo, pend, c>>

Spec == Init /\ [][Next \/ Fin]_vars

\* Print the case and the spec's expectation for the harness (one line per finished source).  With C09_STRIDE = k
\* in the environment only the cases a hash of the source selects (1 in k, shifted by C09_OFFSET) are printed in
\* full; TLC still evaluates every case, and prints every case where the design-level property fails.
Stride == EnvInt("C09_STRIDE", 1)
Offset == EnvInt("C09_OFFSET", 0)
Code(cs) ==
    LET NG == Len(cs.glyphs)
        gid(g) == CHOOSE i \in 1..NG : cs.glyphs[i] = g
        RECURSIVE H(_, _)
        H(i, acc) ==
            IF i > Len(cs.ms) THEN acc
            ELSE LET m == cs.ms[i]
                     W(f) == LET RECURSIVE S(_)
                                 S(j) == IF j = 0 THEN 0
                                         ELSE (IF f[cs.glyphs[j]] = "" THEN 0 ELSE j * j + 1) + 3 * S(j - 1)
                             IN S(NG)
                     Sz(f, n) == Cardinality({g \in DOMAIN f : f[g] = n})
                     KeyCode(k) == (IF k[1] = "g" THEN 3 * gid(k[2]) ELSE 5 + 2 * Sz(m.g1, k[2]))
                                   + 7 * (IF k[3] = "g" THEN 11 * gid(k[4]) ELSE 17 + 2 * Sz(m.g2, k[4]))
                     RECURSIVE KSum(_)
                     KSum(S) == IF S = {} THEN 0
                                ELSE LET k == CHOOSE x \in S : TRUE
                                     IN ((m.kern[k] + 1000) * KeyCode(k) + KSum(S \ {k})) % 10007
                 IN H(i + 1, (acc * 31 + W(m.g1) * 101 + W(m.g2) * 211 + KSum(DOMAIN m.kern)) % 10007)
    IN H(1, cs.dflt)
Emit ==
    stage = "done" =>
        LET e == Eval(c)
        IN IF ~e.designOk \/ Code(c) % Stride = Offset % Stride
           THEN PrintT(<<"REPLAY", ToJson(e)>>)
           ELSE PrintT(<<"SKIPPED", e.nontrivial>>)
=============================================================================
