\* Validation of the context-access log of one recorded build (env GRAPH + CTXLOG); -workers 1.
\* Success = NotAccepted violated with Consistent holding; it prints the undeclared BE->FE reads.
SPECIFICATION Spec
INVARIANTS Consistent NotAccepted
CHECK_DEADLOCK FALSE
