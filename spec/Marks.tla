------------------------------- MODULE Marks -------------------------------
(***************************************************************************)
(* C10  "Mark attachment in the font places marks on the source's anchors" *)
(*                                                                         *)
(* One state of this specification = one abstract font source (six glyphs  *)
(* a, e, f_i, acutecomb, dotbelowcomb, aacute = a + acutecomb; anchors per *)
(* glyph; 1-2 masters; categories given / inferred; anchor propagation     *)
(* on / off) together with                                                 *)
(*   (S) what the SOURCE says: which glyph is a base / ligature / mark by  *)
(*       the source's convention, which (attaching glyph, component, mark, *)
(*       anchor name) pairs it defines, with the rounded coordinates of    *)
(*       both anchors at every master  (SrcPairs, SrcMarks);               *)
(*   (A) a transcription of what the compiler builds from it: anchor name  *)
(*       parse (fontir/src/ir.rs AnchorKind::new), anchor propagation      *)
(*       (fontir/src/propagate_anchors.rs, for the simple composite),      *)
(*       GDEF categories (fontir/src/glyph.rs recompute_gdef_categories,   *)
(*       ufo2fontir preliminary categories), pruning, mark groups, one     *)
(*       lookup per group, mark filtering sets                             *)
(*       (fontbe/src/features/marks.rs), GDEF class inference from the     *)
(*       lookups when no categories exist (fea-rs infer_glyph_classes);    *)
(*   (F) the OpenType meaning of those lookups: which mark a lookup can    *)
(*       attach to which glyph given GDEF classes and lookup flags.        *)
(* Invariants (checked by TLC on every enumerated source): every pair of   *)
(* (S) is attached by some lookup of (A) under (F) with both anchors equal *)
(* to the rounded source coordinates at every master; every source mark is *)
(* GDEF class 3.  Every finished state prints one REPLAY line that         *)
(* checks/c10.py replays into the real compiler.                           *)
(*                                                                         *)
(* Coordinates are integers in HALF font units (so that x.5 exists);       *)
(* Round(h) = floor(h/2 + 1/2) is OpenType rounding (ot_round).            *)
(***************************************************************************)
EXTENDS Integers, Sequences, FiniteSets, TLC, Json

CONSTANT Profile       \* which generator: see Fam / Modes below and the .cfg headers

VARIABLE st

-----------------------------------------------------------------------------
(* Anchor names as character sequences (TLC cannot index into strings)      *)

NameChars ==
  ("top" :> <<"t","o","p">>) @@
  ("bottom" :> <<"b","o","t","t","o","m">>) @@
  ("_top" :> <<"_","t","o","p">>) @@
  ("_bottom" :> <<"_","b","o","t","t","o","m">>) @@
  ("top_1" :> <<"t","o","p","_","1">>) @@
  ("top_2" :> <<"t","o","p","_","2">>) @@
  ("bottom_1" :> <<"b","o","t","t","o","m","_","1">>) @@
  ("entry" :> <<"e","n","t","r","y">>) @@
  ("exit" :> <<"e","x","i","t">>) @@
  ("caret_1" :> <<"c","a","r","e","t","_","1">>) @@
  ("_3" :> <<"_","3">>) @@
  ("_" :> <<"_">>) @@
  ("top_0" :> <<"t","o","p","_","0">>) @@
  ("_top_1" :> <<"_","t","o","p","_","1">>) @@
  ("caret_0" :> <<"c","a","r","e","t","_","0">>) @@
  ("_0" :> <<"_","0">>) @@
  ("caret_" :> <<"c","a","r","e","t","_">>) @@
  ("caret_x" :> <<"c","a","r","e","t","_","x">>) @@
  ("vcaret_2" :> <<"v","c","a","r","e","t","_","2">>) @@
  ("vcaret_0" :> <<"v","c","a","r","e","t","_","0">>) @@
  ("top_" :> <<"t","o","p","_">>) @@
  ("top_x" :> <<"t","o","p","_","x">>) @@
  ("_top_x" :> <<"_","t","o","p","_","x">>) @@
  ("top_1_2" :> <<"t","o","p","_","1","_","2">>) @@
  ("+1" :> <<"+","1">>) @@
  ("top_+2" :> <<"t","o","p","_","+","2">>) @@
  ("_+3" :> <<"_","+","3">>) @@
  ("caret_+2" :> <<"c","a","r","e","t","_","+","2">>) @@
  ("_top_" :> <<"_","t","o","p","_">>) @@
  ("top__1" :> <<"t","o","p","_","_","1">>) @@
  ("exit_1" :> <<"e","x","i","t","_","1">>) @@
  ("entry_2" :> <<"e","n","t","r","y","_","2">>) @@
  ("_entry" :> <<"_","e","n","t","r","y">>) @@
  ("bottom_2" :> <<"b","o","t","t","o","m","_","2">>) @@
  ("vcaret_" :> <<"v","c","a","r","e","t","_">>)

AllNames == DOMAIN NameChars

RECURSIVE Join(_)
Join(s) == IF s = <<>> THEN "" ELSE Head(s) \o Join(Tail(s))

\* the table is typed by hand: the characters must spell the name
ASSUME \A n \in AllNames : Join(NameChars[n]) = n

Str(s) == NameChars[s]          \* only used with names of the table

-----------------------------------------------------------------------------
(* AnchorKind::new, fontir/src/ir.rs:1185-1263                              *)

Digits == {"0","1","2","3","4","5","6","7","8","9"}
DigitVal(c) == CASE c = "0" -> 0 [] c = "1" -> 1 [] c = "2" -> 2 [] c = "3" -> 3 [] c = "4" -> 4
                 [] c = "5" -> 5 [] c = "6" -> 6 [] c = "7" -> 7 [] c = "8" -> 8 [] c = "9" -> 9

\* Rust <usize as FromStr>: an optional leading "+", then one or more ASCII digits
Unsigned(s) == IF Len(s) > 0 /\ s[1] = "+" THEN Tail(s) ELSE s
ParsesUsize(s) == LET t == Unsigned(s) IN Len(t) > 0 /\ \A i \in 1..Len(t) : t[i] \in Digits
RECURSIVE DigitsVal(_, _)
DigitsVal(t, acc) == IF t = <<>> THEN acc ELSE DigitsVal(Tail(t), 10 * acc + DigitVal(Head(t)))
UsizeVal(s) == DigitsVal(Unsigned(s), 0)

HasPrefix(s, p) == Len(s) >= Len(p) /\ SubSeq(s, 1, Len(p)) = p
StripPrefix(s, p) == SubSeq(s, Len(p) + 1, Len(s))
\* position of the last "_" (0 = none): str::rsplit_once('_')
LastUs(s) == LET I == {i \in 1..Len(s) : s[i] = "_"} IN IF I = {} THEN 0 ELSE CHOOSE i \in I : \A j \in I : j <= i

CARET == <<"c","a","r","e","t","_">>
VCARET == <<"v","c","a","r","e","t","_">>

K(kind, group, index) == [k |-> kind, group |-> Join(group), index |-> index, err |-> ""]
KErr(reason) == [k |-> "error", group |-> "", index |-> 0, err |-> reason]

KindOf(n) ==
  IF n = <<"e","n","t","r","y">> THEN K("entry", <<>>, 0)
  ELSE IF n = <<"e","x","i","t">> THEN K("exit", <<>>, 0)
  ELSE IF HasPrefix(n, CARET) \/ HasPrefix(n, VCARET) THEN
    LET suffix == IF HasPrefix(n, CARET) THEN StripPrefix(n, CARET) ELSE StripPrefix(n, VCARET)
        which == IF n[1] = "v" THEN "vcaret" ELSE "caret"
    IN IF ParsesUsize(suffix)
         THEN IF UsizeVal(suffix) = 0 THEN KErr("ZeroIndex") ELSE K(which, <<>>, UsizeVal(suffix))
         ELSE K(which, <<>>, 1)
  ELSE IF Len(n) > 0 /\ n[1] = "_" THEN
    LET suffix == Tail(n)
        u == LastUs(suffix)
    IN IF ParsesUsize(suffix)
         THEN IF UsizeVal(suffix) = 0 THEN KErr("ZeroIndex") ELSE K("compmarker", <<>>, UsizeVal(suffix))
       ELSE IF suffix = <<>> THEN KErr("NilMarkGroup")
       ELSE IF u > 0 /\ ParsesUsize(SubSeq(suffix, u + 1, Len(suffix))) THEN KErr("NumberedMarkAnchor")
       ELSE K("mark", suffix, 0)
  ELSE IF LastUs(n) > 0 THEN
    LET u == LastUs(n)
        pre == SubSeq(n, 1, u - 1)
        suf == SubSeq(n, u + 1, Len(n))
    IN IF ParsesUsize(suf)
         THEN IF UsizeVal(suf) = 0 THEN KErr("ZeroIndex") ELSE K("lig", pre, UsizeVal(suf))
         ELSE K("base", n, 0)
  ELSE K("base", n, 0)

\* TLCEval: TLC keeps [x \in S |-> e] as a lazy function and would re-evaluate e on every application
KindTab == TLCEval([n \in AllNames |-> KindOf(NameChars[n])])

\* what the property text says about the conventional names (design-level sanity of the transcription)
ASSUME KindTab["top"] = K("base", Str("top"), 0)
ASSUME KindTab["_top"] = K("mark", Str("top"), 0)
ASSUME KindTab["top_1"] = K("lig", Str("top"), 1) /\ KindTab["top_2"] = K("lig", Str("top"), 2)
ASSUME KindTab["bottom_1"] = K("lig", Str("bottom"), 1)
ASSUME KindTab["caret_1"] = K("caret", <<>>, 1) /\ KindTab["_3"] = K("compmarker", <<>>, 3)
ASSUME KindTab["entry"].k = "entry" /\ KindTab["exit"].k = "exit"
ASSUME KindTab["_"].err = "NilMarkGroup" /\ KindTab["top_0"].err = "ZeroIndex"
ASSUME KindTab["_top_1"].err = "NumberedMarkAnchor"

StartsUs(n) == NameChars[n][1] = "_"                          \* str::starts_with('_'); no empty names here
StartsExit(n) == HasPrefix(NameChars[n], <<"e","x","i","t">>)
StartsEntry(n) == HasPrefix(NameChars[n], <<"e","n","t","r","y">>)

-----------------------------------------------------------------------------
(* The glyph set                                                            *)

NG == 6
GIds == 1..NG
GName == <<"a", "e", "f_i", "acutecomb", "dotbelowcomb", "aacute">>
CompGlyph == 6            \* aacute = component a (identity) + component acutecomb (translated)
CompBase == 1
CompMark == 4
\* bundled GlyphData by NAME (what ufo2fontir asks when it must infer categories): `vh marks` reports the
\* real table for these names and checks/c10.py compares it with this one
GlyphDataCat == <<"none", "none", "ligature", "mark", "mark", "none">>

\* canonical order of the names used in generated sources = order of the <anchor> elements in the .glif
NameOrder == <<"top", "bottom", "_top", "_bottom", "top_1", "top_2", "bottom_1", "entry", "exit", "caret_1", "_3">>
GenNames == {NameOrder[i] : i \in 1..Len(NameOrder)}
NIdx(n) == CHOOSE i \in 1..Len(NameOrder) : NameOrder[i] = n

GroupRank == ("bottom" :> 1) @@ ("top" :> 2)      \* byte order of the group names (BTreeMap<GroupName, _>)
ASSUME \A n \in GenNames : KindTab[n].k \in {"base", "mark", "lig"} => KindTab[n].group \in DOMAIN GroupRank
ASSUME \A n \in GenNames : KindTab[n].k # "error"

-----------------------------------------------------------------------------
(* Coordinates (half units) of the source anchors: a function of glyph, name, master and the pattern `pat`. *)
(* Distinct (glyph, name) have distinct coordinates at every master; marks have negative x; bottom anchors   *)
(* negative y; pat decides where the .5 values sit and which coordinates do not vary at all.                 *)

IsBottomName(n) == n \in {"bottom", "_bottom", "bottom_1"}
X0(g, n) == (IF g \in {4, 5} THEN -1 ELSE 1) * (200 * g + 10 * NIdx(n))
Y0(g, n) == IF IsBottomName(n) THEN -(20 * NIdx(n) + 3 * g) ELSE 400 + 30 * NIdx(n) + 3 * g
DX(g, n, pat) == IF pat = 0 /\ NIdx(n) % 2 = 0 THEN 0 ELSE 5 + g + 3 * NIdx(n)
DY(g, n, pat) == IF pat = 0 /\ NIdx(n) % 4 = 0 THEN 0 ELSE -(2 + 2 * g + NIdx(n))
HalfBit(k, m, pat) ==
  CASE pat = 0 -> 0
    [] pat = 1 -> IF m = 1 /\ k % 2 = 0 THEN 1 ELSE 0
    [] pat = 2 -> IF m = 2 /\ k % 2 = 1 THEN 1 ELSE 0
    [] pat = 3 -> IF (k + m) % 2 = 0 THEN 1 ELSE 0
HX(g, n, m, pat) == 2 * (X0(g, n) + (IF m = 2 THEN DX(g, n, pat) ELSE 0)) + HalfBit(g + NIdx(n), m, pat)
HY(g, n, m, pat) == 2 * (Y0(g, n) + (IF m = 2 THEN DY(g, n, pat) ELSE 0)) - HalfBit(g + NIdx(n) + 1, m, pat)
\* offset of the acutecomb component inside aacute
OffX(m, pat) == 2 * (IF m = 1 THEN 300 ELSE 322) + HalfBit(1, m, pat)
OffY(m, pat) == 2 * (IF m = 1 THEN 150 ELSE 141) + HalfBit(0, m, pat)

Round(h) == (h + 1) \div 2          \* half units -> font units, round half up (\div is floor division)
ASSUME Round(201) = 101 /\ Round(-201) = -100 /\ Round(200) = 100 /\ Round(-203) = -101

-----------------------------------------------------------------------------
(* A case `c`: [mode, nm, dflt, pat, anch : GIds -> SUBSET GenNames, cats : GIds -> category]               *)
(*   mode "plain"     no public.openTypeCategories, propagation off                                         *)
(*        "given"     categories given, propagation off                                                     *)
(*        "givenprop" categories given, propagation on                                                      *)
(*        "inferprop" no categories, propagation on (categories inferred from GlyphData + anchors)          *)

\* a source whose categories are all "none" has no public.openTypeCategories at all
AllNone(c) == \A g \in DOMAIN c.cats : c.cats[g] = "none"
EffMode(c) == CASE c.mode = "given" /\ AllNone(c) -> "plain"
                [] c.mode = "givenprop" /\ AllNone(c) -> "inferprop"
                [] OTHER -> c.mode
Prop(c) == c.mode \in {"givenprop", "inferprop"}
Masters(c) == 1..c.nm

\* an anchor of the final (after propagation) anchor list of a glyph: name n, taken from source glyph g,
\* moved by the component offset iff off = 1
A(n, g, off) == [n |-> n, g |-> g, off |-> off]
PosX(c, r, m) == HX(r.g, r.n, m, c.pat) + r.off * OffX(m, c.pat)
PosY(c, r, m) == HY(r.g, r.n, m, c.pat) + r.off * OffY(m, c.pat)

Own(c, g) == {A(n, g, 0) : n \in c.anch[g]}

\* --- ufo2fontir: preliminary categories (source.rs:1021-1037)
PrelimCat(c, g) ==
  CASE EffMode(c) \in {"given", "givenprop"} -> c.cats[g]
    [] EffMode(c) = "inferprop" -> GlyphDataCat[g]
    [] OTHER -> "none"

\* --- propagate_anchors.rs, anchors_traversing_components, for glyphs without components
OppositeSide(E) == (IF "_bottom" \in E THEN {"top", "_top"} ELSE {})
                   \cup (IF "_top" \in E THEN {"bottom", "_bottom"} ELSE {})
SimpleDone(c, g) ==
  LET E == c.anch[g]
  IN IF E = {} THEN {}
     ELSE IF PrelimCat(c, g) = "mark" THEN E                 \* "if this is a mark and it has anchors, return them"
     ELSE E \ OppositeSide(E)

\* component 0 (identity transform): anchors in order; an underscore anchor is only taken while no underscore
\* anchor has been seen (own or taken)
RECURSIVE TakeFirst(_, _, _, _)
TakeFirst(names, i, hasUs, acc) ==
  IF i > Len(NameOrder) THEN acc
  ELSE LET n == NameOrder[i]
       IN IF n \notin names THEN TakeFirst(names, i + 1, hasUs, acc)
          ELSE IF hasUs /\ StartsUs(n) THEN TakeFirst(names, i + 1, hasUs, acc)
          ELSE TakeFirst(names, i + 1, hasUs \/ StartsUs(n), acc \cup {n})

Override(old, new) == {r \in old : \A q \in new : q.n # r.n} \cup new

\* ... and for the composite aacute = a (identity) + acutecomb (translated)
CompDone(c) ==
  LET E == c.anch[CompGlyph]
      A0 == SimpleDone(c, CompBase)
      A1 == SimpleDone(c, CompMark)
      take0 == TakeFirst(A0, 1, \E n \in E : StartsUs(n), {})
      all0 == {A(n, CompBase, 0) : n \in take0}
      \* second component: "delete exit anchors we may have taken from earlier components" unless it has an
      \* underscore anchor or an exit anchor itself
      comb == (\E n \in A1 : StartsUs(n) /\ Len(NameChars[n]) >= 2) \/ (\E n \in A1 : StartsExit(n))
      all1 == IF comb THEN all0 ELSE {r \in all0 : ~StartsExit(r.n)}
      \* underscore and entry anchors of a later component are not taken; the rest moves with the component
      from1 == {A(n, CompMark, 1) : n \in {x \in A1 : ~StartsUs(x) /\ ~StartsEntry(x)}}
      all2 == Override(all1, from1)
      all3 == Override(all2, {A(n, CompGlyph, 0) : n \in E})          \* own anchors win
  IN IF E # {} /\ PrelimCat(c, CompGlyph) = "mark" THEN {A(n, CompGlyph, 0) : n \in E}
     ELSE {r \in all3 : r.n \notin OppositeSide(E)}

\* the anchors the mark feature code sees
FinalAnch(c, g) == IF Prop(c) /\ g = CompGlyph THEN CompDone(c) ELSE Own(c, g)

Kd(r) == KindTab[r.n]

\* --- fontir/src/glyph.rs recompute_gdef_categories (fa = final anchors of the glyph)
FinalCat(c, g, fa) ==
  CASE EffMode(c) \in {"given", "givenprop"} -> c.cats[g]      \* ufo2ft convention: copied as-is
    [] EffMode(c) = "plain" -> "none"
    [] OTHER ->                                                  \* inferred (glyphsLib convention)
         LET p == GlyphDataCat[g]
             att == \E r \in fa : Kd(r).k # "mark"
         IN CASE p = "mark" -> "mark"
              [] p = "ligature" -> IF att THEN "ligature" ELSE "none"
              [] p \in {"base", "component"} -> p
              [] OTHER -> IF att THEN "base" ELSE "none"

ClassOfCat(cat) == CASE cat = "base" -> 1 [] cat = "ligature" -> 2 [] cat = "mark" -> 3 [] cat = "component" -> 4
                     [] OTHER -> 0

-----------------------------------------------------------------------------
(* fontbe/src/features/marks.rs.  Everything below is computed once per case by Derive(c); the operators     *)
(* take the already computed pieces as arguments (TLC does not memoise operator applications).               *)

HasGroup(r) == Kd(r).k \in {"base", "mark", "lig"}
Groups == DOMAIN GroupRank
GroupSeq == <<"bottom", "top">>
ASSUME \A i \in 1..Len(GroupSeq) : GroupRank[GroupSeq[i]] = i
ASSUME Len(GroupSeq) = Cardinality(Groups)

HasKind(pr, g, kind, grp) == \E r \in pr[g] : Kd(r).k = kind /\ Kd(r).group = grp
TheAnchor(pr, g, kind, grp, idx) == CHOOSE r \in pr[g] : Kd(r).k = kind /\ Kd(r).group = grp /\ Kd(r).index = idx

LigIndexes(pr, g) == {Kd(r).index : r \in {q \in pr[g] : Kd(q).k \in {"lig", "compmarker"}}}
MaxIndex(pr, g) == CHOOSE i \in LigIndexes(pr, g) : \A j \in LigIndexes(pr, g) : j <= i
LigComps(pr, g, n) == {Kd(r).index : r \in {q \in pr[g] : Kd(q).k = "lig" /\ Kd(q).group = n}}

Lk(type, n, marks, bases, filter) == [type |-> type, group |-> n, marks |-> marks, bases |-> bases, filter |-> filter]
NoFilter == {0}       \* lookups without UseMarkFilteringSet (glyph ids start at 1, so never a real set)

\* GDEF glyph classes inferred by fea-rs from the lookups in order, later assignments win
\* (fea-rs/src/compile/lookups.rs infer_glyph_classes)
RECURSIVE Infer(_, _, _)
Infer(ls, i, acc) ==
  IF i > Len(ls) THEN acc
  ELSE LET l == ls[i]
           first == CASE l.type = "base" -> 1 [] l.type = "lig" -> 2 [] OTHER -> 3
       IN Infer(ls, i + 1, TLCEval([g \in GIds |-> IF g \in l.marks THEN 3 ELSE IF g \in l.bases THEN first ELSE acc[g]]))

\* (F) OpenType: can lookup l attach mark m to glyph g?  Lookup flags of these lookups are 0 or
\* UseMarkFilteringSet; a glyph of GDEF class 3 outside the filtering set is invisible to the lookup;
\* mark-to-base / mark-to-ligature attach to the nearest preceding glyph that is NOT class 3;
\* mark-to-mark needs the preceding glyph to BE class 3.
Skipped(gd, l, x) == gd[x] = 3 /\ l.filter # NoFilter /\ x \notin l.filter

AttachOf(pr, gd, l) ==
  LET ms == {y \in l.marks : ~Skipped(gd, l, y)}
  IN CASE l.type = "base" ->
            {[g |-> g, comp |-> 0, m |-> m, n |-> l.group] :
               g \in {x \in l.bases : gd[x] # 3 /\ ~Skipped(gd, l, x)}, m \in ms}
       [] l.type = "lig" ->
            UNION {{[g |-> g, comp |-> k, m |-> m, n |-> l.group] : k \in LigComps(pr, g, l.group), m \in ms} :
                   g \in {x \in l.bases : gd[x] # 3 /\ ~Skipped(gd, l, x)}}
       [] OTHER ->
            {[g |-> g, comp |-> 0, m |-> m, n |-> l.group] :
               g \in {x \in l.bases : gd[x] = 3 /\ ~Skipped(gd, l, x)}, m \in ms}

Derive(c) ==
  LET fa == TLCEval([g \in GIds |-> FinalAnch(c, g)])
      cat == TLCEval([g \in GIds |-> FinalCat(c, g, fa[g])])
      haveCats == \E g \in GIds : cat[g] # "none"                        \* !gdef_classes.is_empty()
      includeSet == {g \in GIds : cat[g] \in {"base", "mark", "ligature"}}
      incl == IF includeSet = {} THEN GIds ELSE includeSet               \* glyphs taking part
      inclAnch == UNION {fa[g] : g \in incl}
      baseGroups == {Kd(r).group : r \in {q \in inclAnch : Kd(q).k \in {"base", "lig"}}}
      markGroups == {Kd(r).group : r \in {q \in inclAnch : Kd(q).k = "mark"}}
      used == baseGroups \cap markGroups
      \* anchor_lists after pruning
      pr == TLCEval([g \in GIds |->
               IF g \notin incl THEN {}
               ELSE {r \in fa[g] : \/ Kd(r).k \in {"entry", "exit"}
                                   \/ HasGroup(r) /\ Kd(r).group \in used
                                   \/ Kd(r).k = "compmarker"}])
      \* find_mark_glyphs
      markGlyphs == {g \in GIds : /\ pr[g] # {}
                                  /\ (~haveCats \/ cat[g] = "mark")
                                  /\ \E r \in pr[g] : Kd(r).k = "mark"}
      marksOf == TLCEval([n \in Groups |-> {g \in markGlyphs : HasKind(pr, g, "mark", n)}])
      \* make_mark_to_base_groups
      mbBases == TLCEval([n \in Groups |-> {g \in GIds : /\ g \notin markGlyphs
                                                 /\ (~haveCats \/ cat[g] = "base")
                                                 /\ HasKind(pr, g, "base", n)}])
      \* make_mark_to_mark_groups: bases only for groups some mark glyph has a mark anchor of
      mmBases == TLCEval([n \in Groups |-> IF marksOf[n] = {} THEN {}
                                   ELSE {g \in markGlyphs : HasKind(pr, g, "base", n)}])
      \* make_mark_to_liga_groups
      mlBases == TLCEval([n \in Groups |-> {g \in GIds : /\ (~haveCats \/ cat[g] = "ligature")
                                                 /\ HasKind(pr, g, "lig", n)}])
      \* one lookup per group (groups without bases or without marks are skipped); order: all mark-to-base
      \* by group name, then mark-to-ligature, then mark-to-mark (FeaRsMarks::add_features)
      mk(type, bases) ==
        LET RECURSIVE From(_)
            From(i) == IF i > Len(GroupSeq) THEN <<>>
                       ELSE LET n == GroupSeq[i]
                                \* make_filter_glyph_set (mkmk only): marks of the group + its bases
                                filter == IF type = "mark" THEN marksOf[n] \cup bases[n] ELSE NoFilter
                            IN (IF marksOf[n] = {} \/ bases[n] = {} THEN <<>>
                                ELSE <<Lk(type, n, marksOf[n], bases[n], filter)>>) \o From(i + 1)
        IN From(1)
      lookups == TLCEval(mk("base", mbBases) \o mk("lig", mlBases) \o mk("mark", mmBases))
      \* GDEF classes: the categories if there are any (fontbe/src/features.rs:608), else inferred
      gdef == TLCEval(IF haveCats THEN [g \in GIds |-> ClassOfCat(cat[g])]
                      ELSE Infer(lookups, 1, [g \in GIds |-> 0]))
      attach == TLCEval(UNION {AttachOf(pr, gdef, lookups[i]) : i \in 1..Len(lookups)})

      \* ---- (S) what the source says.  Conventions (ufo2ft markFeatureWriter / glyphsLib):
      \*  - only glyphs with a GDEF category base/ligature/mark take part when the source has such categories;
      \*  - an anchor name takes part when some participating glyph has it as base/ligature anchor AND some
      \*    participating glyph has the matching underscore anchor (`used`);
      \*  - a mark is a glyph with such an underscore anchor (and category mark when there are categories);
      \*  - a base is a non-mark glyph (category base when there are categories) with a plain anchor `n`;
      \*    a mark with a plain anchor `n` takes other marks (mark-to-mark); a ligature is a non-mark glyph
      \*    (category ligature when there are categories) with anchors `n_i`.
      \* A glyph the source uses both as mark and as ligature (underscore anchor + numbered anchors, no
      \* categories) is contradictory (`contra`): it still has to attach as a mark, but nothing is required of
      \* it as an attaching glyph nor of its GDEF class (fea-rs gives it the class of the last lookup naming it).
      srcMark == markGlyphs
      contra == IF haveCats THEN {} ELSE {g \in srcMark : \E r \in pr[g] : Kd(r).k = "lig"}
      srcAnch == TLCEval([g \in GIds |-> IF g \in incl THEN {r \in fa[g] : HasGroup(r) /\ Kd(r).group \in used} ELSE {}])
      srcBase == {g \in incl : g \notin srcMark /\ (~haveCats \/ cat[g] = "base")}
      srcLig == {g \in incl : g \notin srcMark /\ (~haveCats \/ cat[g] = "ligature")}
      marksWith(n) == {m \in srcMark : \E q \in srcAnch[m] : Kd(q).k = "mark" /\ Kd(q).group = n}
      pairs == UNION {UNION {
                 LET k == Kd(r)
                 IN CASE k.k = "base" /\ g \in (srcBase \cup (srcMark \ contra)) ->
                           {[g |-> g, comp |-> 0, m |-> m, n |-> k.group] : m \in marksWith(k.group)}
                      [] k.k = "lig" /\ g \in srcLig ->
                           {[g |-> g, comp |-> k.index, m |-> m, n |-> k.group] : m \in marksWith(k.group)}
                      [] OTHER -> {}
                 : r \in srcAnch[g]} : g \in GIds}
      \* glyphs the source classifies as marks: by category when there are categories, else by their anchors
      srcMarks == IF haveCats THEN {g \in GIds : cat[g] = "mark"} ELSE srcMark \ contra
  IN [fa |-> fa, cat |-> cat, haveCats |-> haveCats, used |-> used, pr |-> pr, markGlyphs |-> markGlyphs,
      lookups |-> lookups, gdef |-> gdef, attach |-> attach, pairs |-> pairs, srcMarks |-> srcMarks,
      contra |-> contra]

\* anchors of the font: resolve_anchor_once / resolve_variable_metric round the value of every master first,
\* the default master's rounded value is stored, the other master contributes the (integer) difference
OtherMaster(c) == IF c.nm = 1 THEN c.dflt ELSE IF c.dflt = 1 THEN 2 ELSE 1
FontVal(c, hd, ho, m) ==           \* hd, ho: half-unit source values at the default / the other master
  LET default == Round(hd)
      delta == Round(ho) - Round(hd)
  IN IF m = c.dflt THEN default ELSE default + delta
FontX(c, r, m) == FontVal(c, PosX(c, r, c.dflt), PosX(c, r, OtherMaster(c)), m)
FontY(c, r, m) == FontVal(c, PosY(c, r, c.dflt), PosY(c, r, OtherMaster(c)), m)

\* the anchors a font attachment uses (from the pruned lists) and the anchors the source pair names
AttachAnchor(d, p) ==
  IF p.comp = 0 THEN TheAnchor(d.pr, p.g, "base", p.n, 0) ELSE TheAnchor(d.pr, p.g, "lig", p.n, p.comp)
MarkAnchor(d, p) == TheAnchor(d.pr, p.m, "mark", p.n, 0)
SrcAttachAnchor(d, p) ==
  IF p.comp = 0 THEN TheAnchor(d.fa, p.g, "base", p.n, 0) ELSE TheAnchor(d.fa, p.g, "lig", p.n, p.comp)
SrcMarkAnchor(d, p) == TheAnchor(d.fa, p.m, "mark", p.n, 0)

\* THE PROPERTY on one source
PairPlaced(c, d, p) ==
  /\ p \in d.attach
  /\ \A m \in Masters(c) :
       /\ FontX(c, AttachAnchor(d, p), m) = Round(PosX(c, SrcAttachAnchor(d, p), m))
       /\ FontY(c, AttachAnchor(d, p), m) = Round(PosY(c, SrcAttachAnchor(d, p), m))
       /\ FontX(c, MarkAnchor(d, p), m) = Round(PosX(c, SrcMarkAnchor(d, p), m))
       /\ FontY(c, MarkAnchor(d, p), m) = Round(PosY(c, SrcMarkAnchor(d, p), m))

-----------------------------------------------------------------------------
(* Generators.  A case is built glyph by glyph so that the same Next serves exhaustive (BFS) and seeded       *)
(* (-simulate) exploration.  The last step computes Derive once and keeps it in the state.                    *)

Subsets(S, maxn) == {T \in SUBSET S : Cardinality(T) <= maxn}

SimNames == GenNames

\* anchor sets per glyph
Fam(g) ==
  IF Profile = "quick" THEN
     CASE g = 1 -> {{}, {"top", "bottom"}, {"top", "entry", "exit"}}
       [] g = 2 -> {{"top"}, {"bottom", "caret_1"}}
       [] g = 3 -> {{"top_1", "top_2"}, {"top_2", "bottom_1", "_3"}}
       [] g = 4 -> {{"_top"}, {"_top", "top"}, {"_top", "bottom"}}
       [] g = 5 -> {{"_bottom", "bottom"}, {"_top", "_bottom"}}
       [] g = 6 -> {{}, {"top"}}
  ELSE IF Profile = "thorough" THEN
     CASE g = 1 -> {{}, {"top"}, {"top", "bottom"}, {"top", "entry", "exit"}, {"bottom", "exit", "caret_1"}}
       [] g = 2 -> {{"bottom", "caret_1"}, {"top", "_bottom"}}
       [] g = 3 -> {{}, {"top_1", "top_2"}, {"top_2", "bottom_1"}, {"top_1", "_3"}, {"top", "top_1"}, {"top_1", "_top"}}
       [] g = 4 -> {{"_top"}, {"_top", "top"}, {"_top", "top", "bottom"}, {"top"}}
       [] g = 5 -> {{}, {"_bottom", "bottom"}, {"_top", "_bottom"}, {"_bottom", "top"}}
       [] g = 6 -> {{}, {"top"}}
  ELSE Subsets(SimNames, 3)                   \* "sim": any <= 3 of the 11 names

\* typical sets used half of the time by the simulation, so that plausible sources are not rare
Typical(g) ==
  CASE g \in {1, 2} -> Subsets({"top", "bottom", "entry", "exit", "caret_1"}, 3)
    [] g = 3 -> Subsets({"top_1", "top_2", "bottom_1", "_3", "caret_1"}, 3)
    [] g \in {4, 5} -> {T \in Subsets({"_top", "_bottom", "top", "bottom"}, 3) : T \cap {"_top", "_bottom"} # {}}
    [] OTHER -> Subsets({"top", "bottom", "_3"}, 2)

ModesOf == {"plain", "given", "givenprop", "inferprop"}

NaturalCats == <<"base", "base", "ligature", "mark", "mark", "base">>
\* sim: category choices per glyph for sources with categories
CatChoices(g) ==
  CASE g = CompGlyph -> {"base", "mark", "component", "none"}     \* never ligature (see Limits in docs/C10.md)
    [] OTHER -> {"base", "ligature", "mark", "component", "none"}
\* exhaustive profiles: a few joint category variants instead of the product
CatVariants ==
  IF Profile = "quick"
    THEN {NaturalCats, <<"base", "none", "base", "mark", "base", "none">>}
    ELSE {NaturalCats,
          <<"base", "none", "ligature", "mark", "mark", "base">>,
          <<"base", "base", "base", "mark", "base", "none">>}

NoCats == [g \in GIds |-> "none"]
Empty == [g \in GIds |-> {}]

\* numeric parameters of exhaustive profiles are derived from the anchors (all values occur, no product)
Hash(anch, k) == LET RECURSIVE H(_)
                     H(g) == IF g > NG THEN k
                             ELSE g * (7 + Cardinality(anch[g])) + 3 * H(g + 1)
                                  + (IF "top" \in anch[g] THEN g ELSE 0) + (IF "_top" \in anch[g] THEN 2 ELSE 0)
                 IN H(1)

CaseOf(s) == [mode |-> s.mode, nm |-> s.nm, dflt |-> s.dflt, pat |-> s.pat, anch |-> s.anch, cats |-> s.cats]

Init == st = [phase |-> "mode", mode |-> "", nm |-> 1, dflt |-> 1, pat |-> 0, anch |-> Empty, cats |-> NoCats,
              k |-> 1, typ |-> FALSE, d |-> <<>>]

Finish(s) == [s EXCEPT !.phase = "done", !.d = Derive(CaseOf(s))]

Next ==
  \/ /\ st.phase = "mode" /\ Profile # "parse"
     /\ IF Profile = "sim"
          THEN \E mo \in ModesOf, nm \in 1..2, dm \in 1..2, pat \in 0..3 :
                 /\ (nm = 1 => dm = 1)
                 /\ st' = [st EXCEPT !.phase = "style", !.mode = mo, !.nm = nm, !.dflt = dm, !.pat = pat]
          ELSE \E mo \in ModesOf : st' = [st EXCEPT !.phase = "glyph", !.mode = mo]
  \/ /\ st.phase = "style"                                      \* sim only: typical or arbitrary anchors
     /\ \E t \in BOOLEAN : st' = [st EXCEPT !.phase = "glyph", !.typ = t]
  \/ /\ st.phase = "glyph"
     /\ \E S \in (IF Profile = "sim" /\ st.typ THEN Typical(st.k) ELSE Fam(st.k)) :
          st' = [st EXCEPT !.anch[st.k] = S,
                           !.k = IF st.k = NG THEN 1 ELSE st.k + 1,
                           !.phase = IF st.k < NG THEN (IF Profile = "sim" THEN "style" ELSE "glyph")
                                     ELSE IF st.mode \in {"given", "givenprop"} THEN "cats" ELSE "fin"]
  \/ /\ st.phase = "cats"
     /\ IF Profile = "sim"
          THEN \E ct \in CatChoices(st.k) :
                 st' = [st EXCEPT !.cats[st.k] = ct, !.k = IF st.k = NG THEN 1 ELSE st.k + 1,
                                  !.phase = IF st.k < NG THEN "cats" ELSE "fin"]
          ELSE \E cv \in CatVariants : st' = [st EXCEPT !.cats = cv, !.phase = "fin"]
  \/ /\ st.phase = "fin"
     /\ IF Profile = "sim" THEN st' = Finish(st)
        ELSE LET h == Hash(st.anch, IF st.mode = "plain" THEN 1 ELSE IF st.mode = "given" THEN 2
                                     ELSE IF st.mode = "givenprop" THEN 3 ELSE 4)
                 nm == IF h % 4 = 0 THEN 1 ELSE 2
             IN st' = Finish([st EXCEPT !.nm = nm, !.pat = (h \div 4) % 4,
                                        !.dflt = IF nm = 2 /\ (h \div 16) % 3 = 0 THEN 2 ELSE 1])

Spec == Init /\ [][Next]_st

Case == CaseOf(st)

-----------------------------------------------------------------------------
(* Invariants                                                               *)

Done == st.phase = "done"

\* design level: the compiler's construction satisfies the property on every source
Property == Done => \A p \in st.d.pairs : PairPlaced(Case, st.d, p)
PairsCovered == Done => st.d.pairs \subseteq st.d.attach
MarksAreGdefMarks == Done => \A g \in st.d.srcMarks : st.d.gdef[g] = 3
\* the modelled font does not attach anything the source does not define, except on a contradictory glyph
\* (mark + ligature) or on a mark the font's classes do not treat as one
NoSurprise == Done => \A p \in st.d.attach : p \in st.d.pairs \/ p.g \in st.d.markGlyphs

\* ---- replay record
SeqOfNames(S) == LET idx == {NIdx(n) : n \in S}
                     RECURSIVE Mk(_)
                     Mk(i) == IF i > Len(NameOrder) THEN <<>>
                              ELSE (IF i \in idx THEN <<NameOrder[i]>> ELSE <<>>) \o Mk(i + 1)
                 IN Mk(1)
RECURSIVE SetToSeq(_)
SetToSeq(S) == IF S = {} THEN <<>> ELSE LET x == CHOOSE y \in S : TRUE IN <<x>> \o SetToSeq(S \ {x})

NLoc(c, m) == IF c.nm = 1 THEN <<>> ELSE IF m = c.dflt THEN <<0>> ELSE IF m > c.dflt THEN <<1>> ELSE <<-1>>

GlyphRec(c, g) ==
  LET names == SeqOfNames(c.anch[g])
  IN [name |-> GName[g],
      cat |-> IF c.mode \in {"given", "givenprop"} THEN c.cats[g] ELSE "",
      anchors |-> [i \in 1..Len(names) |->
                     [n |-> names[i], hx |-> [m \in Masters(c) |-> HX(g, names[i], m, c.pat)],
                                      hy |-> [m \in Masters(c) |-> HY(g, names[i], m, c.pat)]]],
      comps |-> IF g = CompGlyph
                  THEN <<[base |-> GName[CompBase], hx |-> [m \in Masters(c) |-> 0], hy |-> [m \in Masters(c) |-> 0]],
                         [base |-> GName[CompMark], hx |-> [m \in Masters(c) |-> OffX(m, c.pat)],
                                                    hy |-> [m \in Masters(c) |-> OffY(m, c.pat)]]>>
                  ELSE <<>>]

PairRec(c, d, p) ==
  LET ga == SrcAttachAnchor(d, p)
      ma == SrcMarkAnchor(d, p)
  IN [g |-> GName[p.g], comp |-> p.comp, m |-> GName[p.m], n |-> p.n,
      base |-> [m \in Masters(c) |-> <<Round(PosX(c, ga, m)), Round(PosY(c, ga, m))>>],
      mark |-> [m \in Masters(c) |-> <<Round(PosX(c, ma, m)), Round(PosY(c, ma, m))>>]]

LookupRec(d, l) ==
  [type |-> l.type, group |-> l.group, marks |-> {GName[g] : g \in l.marks},
   bases |-> {[g |-> GName[g],
               comps |-> IF l.type = "lig" THEN LigComps(d.pr, g, l.group) ELSE {},
               ncomp |-> IF l.type = "lig" THEN MaxIndex(d.pr, g) ELSE 0] : g \in l.bases},
   filtered |-> l.filter # NoFilter,
   filter |-> IF l.filter = NoFilter THEN {} ELSE {GName[g] : g \in l.filter}]

Replay(c, d) ==
  [id |-> <<c.mode, c.nm, c.dflt, c.pat, [g \in GIds |-> SeqOfNames(c.anch[g])],
            IF c.mode \in {"given", "givenprop"} THEN c.cats ELSE <<>>>>,
   mode |-> c.mode, prop |-> Prop(c), cats_given |-> c.mode \in {"given", "givenprop"},
   nm |-> c.nm, dflt |-> c.dflt, pat |-> c.pat,
   nloc |-> [m \in Masters(c) |-> NLoc(c, m)],
   glyphs |-> [g \in GIds |-> GlyphRec(c, g)],
   expect |-> [pairs |-> SetToSeq({PairRec(c, d, p) : p \in d.pairs}),
               marks |-> {GName[g] : g \in d.srcMarks},
               gdef |-> [g \in GIds |-> d.gdef[g]],
               have_cats |-> d.haveCats,
               lookups |-> [i \in 1..Len(d.lookups) |-> LookupRec(d, d.lookups[i])],
               extra |-> SetToSeq({[g |-> GName[p.g], comp |-> p.comp, m |-> GName[p.m], n |-> p.n] :
                                     p \in d.attach \ d.pairs}),
               comp_anchors |-> {[n |-> r.n, from |-> GName[r.g], moved |-> r.off = 1] : r \in d.fa[CompGlyph]}]]

Emit == Done => PrintT(<<"REPLAY", ToJson(Replay(Case, st.d))>>)

\* ---- the parse table (profile "parse"): one line with the kind of every name of the table
ParseRec == [n \in AllNames |-> KindTab[n]]
EmitParse == (Profile = "parse" /\ st.phase = "mode") => PrintT(<<"REPLAY", ToJson([parse |-> ParseRec])>>)

=============================================================================
