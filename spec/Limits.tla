------------------------------- MODULE Limits -------------------------------
(***************************************************************************)
(* C19  Values that do not fit the binary format are rejected, never       *)
(*      wrapped.                                                           *)
(*                                                                         *)
(* For every FIELD of the binary font that holds a number taken from the   *)
(* source this module states                                               *)
(*   - the representable range  Lo(f)..Hi(f)  (in the field's own unit:    *)
(*     font units, or 1/16384 for the 2.14 component matrix),              *)
(*   - the set Allowed(f, v) of OUTCOMES a build may have for a source     *)
(*     value v, and                                                        *)
(*   - how an OBSERVATION of a real build (exit status, font or no font,   *)
(*     the value read back from the field, the deviation of the drawn      *)
(*     picture from the source's picture) is classified into an outcome.   *)
(*                                                                         *)
(* Outcomes                                                                *)
(*   Exact     the font holds the (rounded) source value.  For a value     *)
(*             beyond the range this can only happen within the rounding   *)
(*             slack the property grants ("clamped to something visibly    *)
(*             different" is forbidden; a clamp by at most Slack = 2       *)
(*             units is not visible): |font - source| <= Slack.            *)
(*   Error     the build fails: exit status # 0, a diagnostic, no font.    *)
(*   Defaulted (enumerated fields only) the unusable value is replaced by  *)
(*             the field's default and the build says so in a diagnostic.  *)
(*   Fallback  the value is not stored in the field but the picture is     *)
(*             still the source's (e.g. a component whose scale does not   *)
(*             fit 2.14 is decomposed into an outline).                    *)
(*   forbidden: Wrapped (stored = v modulo 2^16), Clamped (stored at a     *)
(*             limit, further than Slack from v), Distorted (anything      *)
(*             else that is not the source's value/picture), Crash (killed *)
(*             by a signal), Hang (timeout), ErrorWithFont, NoFont.        *)
(*   SameOutcome(debug, release): both build profiles give the same        *)
(*             outcome class per item, and the same bytes when both        *)
(*             produce a font.                                             *)
(*                                                                         *)
(* The generator part (Init/Next/Emit, LimitsGen*.cfg) enumerates cases:   *)
(* one field at a boundary value, and pairs of fields; each is printed as  *)
(* (Composed: 2x2 component values that leave the 2.14 range only as the   *)
(* product of two nested component transforms.)  Each is printed as        *)
(* a REPLAY line with its allowed outcome set.  checks/c19.py turns a case *)
(* into a real source, builds it with both compiler profiles, measures the *)
(* outputs (vh limits) and hands the observations to LimitsObs.tla, which  *)
(* applies Classify/Accept below.                                          *)
(***************************************************************************)
EXTENDS Integers, Sequences, FiniteSets, TLC, Json

CONSTANTS Tier            \* "quick" | "thorough": which value sets / pairs are enumerated

Slack == 2                \* from the property text: not "visibly different" (numbers that are rounded)

I16Lo == -32768
I16Hi == 32767
U16Hi == 65535
I32Hi == 2147483647       \* TLC integers are 32 bit; -I32Hi stands for the i32 minimum

Abs(x) == IF x < 0 THEN 0 - x ELSE x

(***************************************************************************)
(* Fields.  kind:                                                          *)
(*   "static"  value of the default master (static source, or a variable   *)
(*             source whose masters agree);                                *)
(*   "delta"   v is the difference between the second master and the       *)
(*             default master, both master values being representable;     *)
(*   "count"   a number of things (glyphs, points, contours);              *)
(*   "enum"    OS/2 usWidthClass.                                          *)
(* unit: "fu" font units, "q14" 1/16384.  mag: the sign is not observable  *)
(* (a contour may be stored in either direction), v is a magnitude.        *)
(***************************************************************************)
FieldDef == [
  coord_x      |-> [lo |-> I16Lo, hi |-> I16Hi, kind |-> "static", mag |-> FALSE],
  coord_y      |-> [lo |-> I16Lo, hi |-> I16Hi, kind |-> "static", mag |-> FALSE],
  pdelta_x     |-> [lo |-> 0,     hi |-> I16Hi, kind |-> "static", mag |-> TRUE],
  pdelta_y     |-> [lo |-> 0,     hi |-> I16Hi, kind |-> "static", mag |-> TRUE],
  comp_dx      |-> [lo |-> I16Lo, hi |-> I16Hi, kind |-> "static", mag |-> FALSE],
  comp_dy      |-> [lo |-> I16Lo, hi |-> I16Hi, kind |-> "static", mag |-> FALSE],
  comp_xx      |-> [lo |-> I16Lo, hi |-> I16Hi, kind |-> "static", mag |-> FALSE],   \* q14: [-2, 2)
  comp_xy      |-> [lo |-> I16Lo, hi |-> I16Hi, kind |-> "static", mag |-> FALSE],   \* q14
  \* the same 2.14 field when the value arises only by COMPOSITION of two component transforms that are each
  \* representable: v = a * b, a = scale of a component referencing an intermediate glyph, b = scale of the
  \* intermediate glyph's own component.  _nx: the intermediate glyph is not exported (public.skipExportGlyphs)
  \* and is inlined; _fl: both are exported and the build runs with --flatten-components
  comp_xx_nx   |-> [lo |-> I16Lo, hi |-> I16Hi, kind |-> "static", mag |-> FALSE],   \* q14
  comp_xx_fl   |-> [lo |-> I16Lo, hi |-> I16Hi, kind |-> "static", mag |-> FALSE],   \* q14
  advance      |-> [lo |-> 0,     hi |-> U16Hi, kind |-> "static", mag |-> FALSE],
  lsb          |-> [lo |-> I16Lo, hi |-> I16Hi, kind |-> "static", mag |-> FALSE],
  \* vmtx (sources with vertical metrics): advance height, top side bearing = vertical origin - yMax
  vadvance     |-> [lo |-> 0,     hi |-> U16Hi, kind |-> "static", mag |-> FALSE],
  tsb          |-> [lo |-> I16Lo, hi |-> I16Hi, kind |-> "static", mag |-> FALSE],
  kern         |-> [lo |-> I16Lo, hi |-> I16Hi, kind |-> "static", mag |-> FALSE],
  anchor_x     |-> [lo |-> I16Lo, hi |-> I16Hi, kind |-> "static", mag |-> FALSE],
  anchor_y     |-> [lo |-> I16Lo, hi |-> I16Hi, kind |-> "static", mag |-> FALSE],
  \* glyph variation data: 16-bit deltas
  gvar_delta   |-> [lo |-> I16Lo, hi |-> I16Hi, kind |-> "delta",  mag |-> FALSE],
  compoff_delta|-> [lo |-> I16Lo, hi |-> I16Hi, kind |-> "delta",  mag |-> FALSE],
  \* item variation store: 32-bit ("long") delta words exist, so every difference of two representable
  \* master values is representable
  adv_delta    |-> [lo |-> 0 - I32Hi, hi |-> I32Hi, kind |-> "delta", mag |-> FALSE],
  kern_delta   |-> [lo |-> 0 - I32Hi, hi |-> I32Hi, kind |-> "delta", mag |-> FALSE],
  anchor_delta |-> [lo |-> 0 - I32Hi, hi |-> I32Hi, kind |-> "delta", mag |-> FALSE],
  glyph_count  |-> [lo |-> 1,     hi |-> U16Hi, kind |-> "count",  mag |-> FALSE],
  num_h_metrics|-> [lo |-> 1,     hi |-> U16Hi, kind |-> "count",  mag |-> FALSE],
  comp_points  |-> [lo |-> 0,     hi |-> U16Hi, kind |-> "count",  mag |-> FALSE],
  comp_contours|-> [lo |-> 0,     hi |-> U16Hi, kind |-> "count",  mag |-> FALSE],
  glyph_points |-> [lo |-> 0,     hi |-> U16Hi, kind |-> "count",  mag |-> FALSE],
  width_class  |-> [lo |-> 1,     hi |-> 9,     kind |-> "enum",   mag |-> FALSE],
  \* the same number given as an instance attribute of a Glyphs source (axis mapping of 'wdth')
  width_class_g|-> [lo |-> 1,     hi |-> 9,     kind |-> "enum",   mag |-> FALSE]
]
Fields == DOMAIN FieldDef
Lo(f) == FieldDef[f].lo
Hi(f) == FieldDef[f].hi

\* an enumerated value is not rounded: no slack there
SlackOf(f) == IF FieldDef[f].kind = "enum" THEN 0 ELSE Slack
EnumDefault == 5          \* usWidthClass Medium: what a source without the attribute gets

InRange(f, v) == Lo(f) <= v /\ v <= Hi(f)
\* distance from the range; only evaluated on the side that is violated (no 32-bit overflow)
Excess(f, v) == IF v > Hi(f) THEN v - Hi(f) ELSE IF v < Lo(f) THEN Lo(f) - v ELSE 0
Dir(f, v) == IF v > Hi(f) THEN "above" ELSE IF v < Lo(f) THEN "below" ELSE "in"

(***************************************************************************)
(* Allowed outcomes.                                                       *)
(***************************************************************************)
Allowed(f, v) ==
  IF InRange(f, v) THEN {"Exact", "Fallback"}
  ELSE {"Error", "Fallback"} \cup (IF Excess(f, v) <= SlackOf(f) THEN {"Exact"} ELSE {})
                            \cup (IF FieldDef[f].kind = "enum" THEN {"Defaulted"} ELSE {})

Forbidden == {"Wrapped", "Clamped", "Distorted", "Crash", "Hang", "ErrorWithFont", "NoFont"}

(***************************************************************************)
(* Classification of one observed item of one build that produced a font.  *)
(* it = [has_stored, stored, has_picture, pic_dev]                         *)
(*   stored    the number read back from the field (field unit)            *)
(*   pic_dev   ceiling of the largest distance between the source's        *)
(*             picture and the font's picture of the same thing (outline   *)
(*             drawn by an independent rasteriser front end, advance,      *)
(*             effective kerning...) over the locations looked at          *)
(***************************************************************************)
Mod16(x) == x % 65536
\* (for a magnitude the stored number may be the wrapped negative: |-32768| = 32768)
IsWrap(f, s, v) == \/ s # v /\ Mod16(s) = Mod16(v)
                   \/ FieldDef[f].mag /\ Mod16(0 - s) = Mod16(v)
\* limits a saturating conversion may stop at: the field's own, and the 16-bit ones for the 32-bit fields
ClampPoints(f) == {Lo(f), Hi(f), I16Lo, I16Hi, 0, U16Hi}
PicOK(it) == it.has_picture => it.pic_dev <= Slack

\* diag: the build wrote a diagnostic (warning or error text)
ItemClass(f, v, it, diag) ==
  IF it.has_stored
  THEN IF Abs(it.stored - v) <= SlackOf(f) /\ PicOK(it) THEN "Exact"
       ELSE IF FieldDef[f].kind = "enum" /\ ~InRange(f, v) /\ it.stored = EnumDefault /\ diag THEN "Defaulted"
       ELSE IF IsWrap(f, it.stored, v) THEN "Wrapped"
       ELSE IF it.stored \in ClampPoints(f) /\ Abs(it.stored - v) > SlackOf(f) THEN "Clamped"
       ELSE "Distorted"
  ELSE IF it.has_picture /\ it.pic_dev <= Slack THEN "Fallback"
       ELSE "Distorted"

(***************************************************************************)
(* Classification of a build (one profile).                                *)
(* o = [how, status, font, diag, sha, items]; how: exited|signaled|        *)
(* timedout, font: none|valid|garbage, diag: something was written to the  *)
(* diagnostic stream                                                       *)
(***************************************************************************)
BuildClass(o) ==
  IF o.how = "timedout" THEN "Hang"
  ELSE IF o.how = "signaled" THEN "Crash"
  ELSE IF o.status # 0 THEN (IF o.font = "none" THEN "Error" ELSE "ErrorWithFont")
  ELSE IF o.font # "valid" THEN "NoFont"
  ELSE "Font"

ItemClasses(case, o) ==
  [i \in 1..Len(case.items) |->
     IF BuildClass(o) = "Font" THEN ItemClass(case.items[i].field, case.items[i].v, o.items[i], o.diag)
     ELSE BuildClass(o)]

\* the build is acceptable for the property
BuildOK(case, o) ==
  LET bc == BuildClass(o) IN
  CASE bc = "Font"  -> \A i \in 1..Len(case.items) :
                          ItemClasses(case, o)[i] \in Allowed(case.items[i].field, case.items[i].v)
    [] bc = "Error" -> TRUE    \* see UnexpectedError: the property does not forbid rejecting
    [] OTHER        -> FALSE

\* an error although every value is representable: the property is silent about it (reported as drift)
UnexpectedError(case, o) ==
  /\ BuildClass(o) = "Error"
  /\ \A i \in 1..Len(case.items) : "Error" \notin Allowed(case.items[i].field, case.items[i].v)

SameOutcome(case, d, r) ==
  /\ BuildClass(d) = BuildClass(r)
  /\ ItemClasses(case, d) = ItemClasses(case, r)
  /\ BuildClass(d) = "Font" => d.sha = r.sha

Accept(case, d, r) == BuildOK(case, d) /\ BuildOK(case, r) /\ SameOutcome(case, d, r)

(***************************************************************************)
(* Design-level sanity of the relation (checked by TLC on every generated  *)
(* case): the allowed and forbidden classes are disjoint, a representable  *)
(* value stored exactly is accepted, a wrapped or saturated one is not.    *)
(***************************************************************************)
StoredIt(s) == [has_stored |-> TRUE, stored |-> s, has_picture |-> FALSE, pic_dev |-> 0]
Saturate(f, v) == IF v > Hi(f) THEN Hi(f) ELSE IF v < Lo(f) THEN Lo(f) ELSE v
RelationSane(f, v) ==
  /\ Allowed(f, v) \cap Forbidden = {}
  /\ InRange(f, v) => ItemClass(f, v, StoredIt(v), FALSE) = "Exact"
  /\ (~InRange(f, v) /\ Excess(f, v) > SlackOf(f)) =>
        /\ ItemClass(f, v, StoredIt(Saturate(f, v)), FALSE) \in {"Clamped", "Wrapped"}   \* both when they coincide
        /\ ItemClass(f, v, StoredIt(Saturate(f, v)), FALSE) \notin Allowed(f, v)
  /\ (~InRange(f, v) /\ Hi(f) - Lo(f) < 65536 /\ InRange(f, Lo(f) + Mod16(v - Lo(f)))) =>
        ItemClass(f, v, StoredIt(Lo(f) + Mod16(v - Lo(f))), FALSE) \in {"Wrapped", "Exact"}

(***************************************************************************)
(* Generator: boundary values per field.                                   *)
(***************************************************************************)
Thorough == Tier = "thorough"

I16Pos == {32766, 32767, 32768, 32769, 32770, 40000, 65536, 70000}
          \cup (IF Thorough THEN {32000, 65535, 65636, 98304, 131070} ELSE {})
I16Neg == {-32767, -32768, -32769, -32770, -32771, -40000, -65537, -70000}
          \cup (IF Thorough THEN {-32000, -65536, -65636, -98000, -131072} ELSE {})
\* magnitudes of differences of two 16-bit values
DeltaMag == {32767, 32768, 32770, 40000, 65535} \cup (IF Thorough THEN {32766, 32769, 50000, 65534} ELSE {})
Q14Vals == {32766, 32767, 32768, 32769, 32770, 40960, 65536,
            -32767, -32768, -32769, -32770, -40960, -65536}
           \cup (IF Thorough THEN {24576, 36864, 49152, 81920, 98304, -24576, -36864, -49152, -81920} ELSE {})
U16Vals == {65534, 65535, 65536, 65537, 65538, 66036, 70000, 131072,
            0, -1, -2, -3, -100, -65537, -70000}
           \cup (IF Thorough THEN {1, 40000, 100000, 131070, 196608, -500, -32768, -32769, -40000} ELSE {})
Signed(S) == S \cup {0 - x : x \in S}

Values(f) ==
  CASE f \in {"coord_x", "coord_y", "comp_dx", "comp_dy", "kern", "anchor_x", "anchor_y"} -> I16Pos \cup I16Neg
    [] f = "lsb" -> I16Neg \cup {32766, 32767, 32768, 32769, 40000}
    [] f \in {"pdelta_x", "pdelta_y"} -> DeltaMag
    [] f \in {"comp_xx", "comp_xy"} -> Q14Vals
    [] f \in {"comp_xx_nx", "comp_xx_fl"} -> {}       \* generated from factor pairs, see Composed
    [] f = "advance" -> U16Vals
    [] f = "vadvance" -> {65535, 65536, 65538, 70000, 131072, 0, -1, -3, -100} \cup (IF Thorough THEN U16Vals ELSE {})
    [] f = "tsb" -> Signed(DeltaMag)       \* both the origin and yMax stay representable
    [] f \in {"gvar_delta", "compoff_delta", "kern_delta", "anchor_delta", "adv_delta"} -> Signed(DeltaMag)
    [] f \in {"glyph_count", "num_h_metrics"} -> {}   \* generated together (same source), see Linked
    [] f = "comp_points" -> {65534, 65535, 65536, 66000} \cup (IF Thorough THEN {131072, 196608} ELSE {})
    [] f = "comp_contours" -> {}                     \* paired with comp_points below
    \* (not 65536: it wraps to 0, which the maximum over the other glyphs hides)
    [] f = "glyph_points" -> IF Thorough THEN {65535, 65636, 66000} ELSE {65535, 65636}
    [] f = "width_class" -> {0, 1, 2, 5, 9, 10, 11, 65535, 65536, -1}
    [] f = "width_class_g" -> {0, 1, 5, 9, 10, 65535}

\* source kinds a field can be exercised in: "static" (one master) or "var" (two masters)
Srcs(f) ==
  CASE FieldDef[f].kind = "delta" -> {"var"}
    [] f \in {"glyph_count", "num_h_metrics", "comp_points", "comp_contours", "glyph_points", "width_class",
               "vadvance", "tsb"} -> {"static"}
    [] f = "width_class_g" -> {"var"}
    [] OTHER -> {"static", "var"}

\* a, b: the two factors (q14) of a composed value, 0 for every other field
Item(f, v) == [field |-> f, v |-> v, a |-> 0, b |-> 0]
\* factor pairs in q14 whose product is again an exact q14 number; each factor lies well inside (-2, 2)
\*   1.5*1.5 = 2.25   -1.5*1.5 = -2.25   1.875*1.125 = 2.109375   1.5*1.34375 = 2.015625 (just over)
\*   1.375*1.375 = 1.890625   1.5*1.3125 = 1.96875 (just under)   1.375*-1.375 = -1.890625
Factors == {<<24576, 24576>>, <<-24576, 24576>>, <<30720, 18432>>, <<24576, 22016>>,
            <<22528, 22528>>, <<24576, 21504>>, <<22528, -22528>>}
           \cup (IF Thorough THEN {<<-24576, -24576>>, <<28672, 28672>>, <<18432, -30720>>, <<24576, -22016>>,
                                   <<16384, 24576>>, <<8192, 28672>>, <<31744, 31744>>} ELSE {})
ItemC(f, a, b) == [field |-> f, v |-> (a * b) \div 16384, a |-> a, b |-> b]
ASSUME \A p \in Factors : (p[1] * p[2]) % 16384 = 0
Composed == {[items |-> <<ItemC(f, p[1], p[2])>>, src |-> s] :
                f \in {"comp_xx_nx", "comp_xx_fl"}, p \in Factors, s \in {"static", "var"}}
Singles == UNION {{[items |-> <<Item(f, v)>>, src |-> s] : v \in Values(f), s \in Srcs(f)} : f \in Fields}

\* cases that only exist as a combination
Linked ==
     {[items |-> <<Item("glyph_count", n), Item("num_h_metrics", n)>>, src |-> "static"] :
        n \in (IF Thorough THEN {65535, 65536} ELSE {})}
  \cup {[items |-> <<Item("comp_contours", n), Item("comp_points", 3 * n)>>, src |-> "static"] :
        n \in {65535, 65536} \cup (IF Thorough THEN {66000} ELSE {})}

\* pairs of independent fields: both at or beyond a limit
PairFields == {"coord_x", "coord_y", "pdelta_x", "comp_dx", "comp_dy", "comp_xx", "comp_xy", "advance",
               "kern", "anchor_x", "anchor_y"}
PairVals(f) ==
  CASE f \in {"pdelta_x"} -> {32767, 40000}
    [] f \in {"comp_xx", "comp_xy"} -> {32767, 40960, -40960}
    [] f = "advance" -> {65535, 70000, -100}
    [] OTHER -> {32767, 40000, -32769}
FieldOrder == <<"coord_x", "coord_y", "pdelta_x", "comp_dx", "comp_dy", "comp_xx", "comp_xy", "advance",
                "kern", "anchor_x", "anchor_y">>
Pairs == UNION {UNION {
            {[items |-> <<Item(FieldOrder[i], v1), Item(FieldOrder[j], v2)>>, src |-> s] :
                v1 \in PairVals(FieldOrder[i]), v2 \in PairVals(FieldOrder[j]), s \in {"static", "var"}}
            : j \in (i + 1)..Len(FieldOrder)} : i \in 1..Len(FieldOrder)}
\* the case named in the property record: successive points more than 65535 apart (both coordinates out of range)
\* (a rectangle from -40000 to 40000: judged as one item, the difference)
Wide == {[items |-> <<Item("pdelta_x", 80000)>>, src |-> "static"]}

Cases == Singles \cup Linked \cup Pairs \cup Wide \cup Composed

Describe(c) ==
  [items |-> [i \in 1..Len(c.items) |->
                 [field |-> c.items[i].field, v |-> c.items[i].v, a |-> c.items[i].a, b |-> c.items[i].b,
                  lo |-> Lo(c.items[i].field), hi |-> Hi(c.items[i].field),
                  dir |-> Dir(c.items[i].field, c.items[i].v),
                  kind |-> FieldDef[c.items[i].field].kind,
                  allowed |-> Allowed(c.items[i].field, c.items[i].v)]],
   src |-> c.src]

VARIABLE case
Init == case \in Cases
Next == UNCHANGED case
Emit == /\ \A i \in 1..Len(case.items) : RelationSane(case.items[i].field, case.items[i].v)
        /\ PrintT(<<"REPLAY", ToJson(Describe(case))>>)
=============================================================================
