---------------------------- MODULE RoutesTrace ----------------------------
(***************************************************************************)
(* Trace validation for C20.  checks/c20.py executes TLC-generated walks   *)
(* on real sources and records, per walk, one ndjson record                 *)
(*   {i, design, class: {id, kind, selfContained, bundle, ufoOnly},        *)
(*    ev: [ {e:"P", c: container, v: [formatting ops applied]}             *)
(*        | {e:"C", entry, opt, res, kind} ]}                              *)
(* "P" = the design was presented in container c with variant v (it must   *)
(* be exactly one Repackage or one Reformat step away from the current     *)
(* presentation); "C" = it was compiled through `entry` with option set    *)
(* `opt`; res = "ok:<sha256 of the bytes>" or "fail"; kind = the Input     *)
(* variant the library dispatch chose ("" for the CLI: not observable).    *)
(*                                                                         *)
(* Every event must be a step of Routes.tla and the invariants are         *)
(* evaluated in every state.  Many walks are validated in one TLC run, so  *)
(* a failed guard / invariant does not stop the run: its name is recorded  *)
(* in `rej` and a VERDICT line is printed when the record is left.         *)
(* Reasons: "SameFont" (property), "I:DispatchOK", "I:Kind" (internal      *)
(* observables), "H:NotAStep", "H:Entry" (the harness recorded something   *)
(* that is not a behaviour of the spec: tool error).                       *)
(* Acceptance of the batch = TLC completes and POSTCONDITION Accepted      *)
(* holds (all records consumed).  -workers 1, depth-first queue.           *)
(***************************************************************************)
EXTENDS Routes, IOUtils

Rec == ndJsonDeserialize(IOEnv.TRACE)
N == Len(Rec)

VARIABLES
  i,    \* current record
  k,    \* current event
  st,   \* "begin" | "ev"
  rej   \* sequence of <<reason, event index>>

tvars == <<vars, i, k, st, rej>>

R == Rec[i]
E == R.ev[k]
SeqToSet(s) == {s[n] : n \in 1..Len(s)}
Reject(reason) == rej' = Append(rej, <<reason, k>>)

TBegin ==
  /\ i <= N /\ st = "begin"
  /\ design' = R.class
  /\ container' = InitContainer(R.class)
  /\ variant' = {}
  /\ obs' = {}
  /\ k' = 1 /\ st' = "ev" /\ rej' = <<>>
  /\ UNCHANGED <<i, hist>>

\* the unique step of the spec that leads to presentation (c, v), if any
PresentStep(c, v) ==
  IF c # container /\ v = variant THEN Repackage(c)
  ELSE IF c = container /\ \E op \in FormatOps : v = (IF op \in variant THEN variant \ {op} ELSE variant \cup {op})
       THEN \E op \in FormatOps : Reformat(op) /\ variant' = v
  ELSE FALSE

NewObs == [opt |-> E.opt, cls |-> Cls(design, container), res |-> E.res]
\* the new observation against every earlier one (SameFont restricted to the pairs that involve it, so that a
\* disagreement is reported once, at the event that introduced it)
Agrees(a, b) ==
  a.opt = b.opt =>
    /\ a.cls = b.cls => a.res = b.res
    /\ (a.cls = "noinclude" /\ b.cls = "main") => (a.res = "fail" \/ a.res = b.res)
NewObsOK == \A b \in obs : Agrees(NewObs, b) /\ Agrees(b, NewObs)

TEvent ==
  /\ i <= N /\ st = "ev" /\ k <= Len(R.ev)
  /\ CASE E.e = "P" ->
            IF ENABLED PresentStep(E.c, SeqToSet(E.v))
            THEN PresentStep(E.c, SeqToSet(E.v)) /\ UNCHANGED rej
            ELSE Reject("H:NotAStep") /\ UNCHANGED <<design, container, variant, obs>>
       [] E.e = "C" ->
            IF E.entry \notin Entries(container) \/ E.opt \notin DOMAIN OptDef
            THEN Reject("H:Entry") /\ UNCHANGED <<design, container, variant, obs>>
            ELSE /\ Compile(E.entry, E.opt, E.res)
                 /\ rej' = rej
                      \o (IF NewObsOK THEN <<>> ELSE << <<"SameFont", k>> >>)
                      \o (IF Cls(design, container) = "unrecognized" /\ E.res # "fail"
                          THEN << <<"I:DispatchOK", k>> >> ELSE <<>>)
                      \o (IF E.kind # "" /\ E.kind # Dispatch(design, container)
                          THEN << <<"I:Kind", k>> >> ELSE <<>>)
  /\ k' = k + 1
  /\ UNCHANGED <<i, st, hist>>

TEmit ==
  /\ i <= N /\ st = "ev" /\ k > Len(R.ev)
  /\ rej # <<>> => PrintT(<<"VERDICT", ToJson([i |-> R.i, rej |-> rej])>>)
  /\ i' = i + 1 /\ st' = "begin" /\ k' = 1
  /\ UNCHANGED <<vars, rej>>

TraceInit ==
  /\ i = 1 /\ k = 1 /\ st = "begin" /\ rej = <<>>
  /\ design = ClassDef.g /\ container = "file" /\ variant = {} /\ obs = {} /\ hist = <<>>

TraceNext == TBegin \/ TEvent \/ TEmit
TraceSpec == TraceInit /\ [][TraceNext]_tvars

\* a record that carries no rejection satisfies the property invariant in every state
AcceptedMeansSame == (\A n \in 1..Len(rej) : rej[n][1] # "SameFont") => SameFont
TraceTypeOK == container \in Containers(design) /\ variant \subseteq FormatOps

NotAccepted == i <= N
Progress == TLCSet(1, IF TLCGet(1) < i THEN i ELSE TLCGet(1))
ProgressInit == TLCSet(1, 0)
ASSUME ProgressInit
Accepted == PrintT(<<"PROGRESS", TLCGet(1), N>>) /\ TLCGet(1) > N
=============================================================================
