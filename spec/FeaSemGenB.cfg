\* Generator B: every two-lookup program with one rule per lookup from FeaSem!Reduced (15 rules),
\* flags {none, IgnoreMarks} x {none, 0, IgnoreMarks}, 10 structure templates (FeaSem!Templates2).
CONSTANTS Stride = 1 Offset = 0
INIT InitB
NEXT NextNone
INVARIANT EmitCase
CHECK_DEADLOCK FALSE
