\* C12 design-level check that stops at the first gap (interactive use): TLC reports NoSpecGap violated
\* with the behaviour that leads to the first state where the spec itself does not preserve the picture.
\* Cases First..First+Count-1 of the seeded generator GenCase (environment: C12_SEED, C12_FIRST, C12_COUNT;
\* defaults 1, 1, NCases): 4 glyphs g1..g4, components only to later glyphs (every DAG), <= 2 components per
\* glyph (1 in 16 to a missing glyph), kinds simple / composite / mixed, glyphs 2..4 non-exported with
\* probability 1/3, transforms identity / translate / scale 2 / scale 1/2 / flip x / rotate 90 / scale 3,
\* 1 master, 2 masters, or 2 masters + intermediate layers in a third of the glyphs; per-master component offsets,
\* contours and advances; glyph 4 named "g1.0" in 1 of 8 cases.  Each case is run under all 16 option subsets.
\* StopOnGap = TRUE: the first gap (state where the spec itself breaks the property) violates NoSpecGap.
SPECIFICATION Spec
CONSTANTS
    NCases = 300
    StopOnGap = TRUE
INVARIANTS
    NoSpecGap
    ResolveForms
    FinalShape

CHECK_DEADLOCK FALSE
