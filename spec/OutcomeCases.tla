---------------------------- MODULE OutcomeCases ----------------------------
(* C15 generator universe: structural mutations of a small source that TLC enumerates -- every      *)
(* component digraph on three glyphs with at most two components per glyph, self references and     *)
(* cycles included, each glyph with or without its own contour.                                     *)
EXTENDS Naturals, Sequences, FiniteSets, TLC, Json
(* Part 1: generator *)

Glyphs == {"a", "b", "c"}
CompLists == {<<>>} \cup {<<x>> : x \in Glyphs} \cup {<<x, y>> : x \in Glyphs, y \in Glyphs}

\* a case: components per glyph + which glyphs also have a contour
Cases == [comps : [Glyphs -> CompLists], contour : SUBSET Glyphs]

RECURSIVE Reach(_, _, _)
Reach(c, frontier, seen) ==
  IF frontier = {} THEN seen
  ELSE LET nxt == UNION {{c[g][k] : k \in DOMAIN c[g]} : g \in frontier}
       IN Reach(c, nxt \ seen, seen \cup nxt)

\* g reaches itself through components
OnCycle(c, g) == g \in Reach(c, {g}, {})
Cyclic(c) == \E g \in Glyphs : OnCycle(c, g)


\* second family: a two-master source whose masters may have DIFFERENT component graphs (at most one
\* component per glyph), e.g. a cycle that exists only in the non-default master or only in the default one
CompLists1 == {<<>>} \cup {<<x>> : x \in Glyphs}
Cases2 == [reg : [Glyphs -> CompLists1], bold : [Glyphs -> CompLists1]]
\* a master whose own graph is cyclic can never be compiled
Cyclic2(c) == Cyclic(c.reg) \/ Cyclic(c.bold)
=============================================================================
