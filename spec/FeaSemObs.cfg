\* Evaluator: env CASES = ndjson file of {id, p}.  64 work-packet states, one successor state per case;
\* the invariant prints Expected(p) (FeaSem.tla) for the case.  Bounds are those of the cases given:
\* strings of length <= 3 over p.alpha, every registered (script, language), every non-empty feature subset.
CONSTANTS Stride = 1 Offset = 0
INIT InitObs
NEXT NextObs
INVARIANT EmitObs
CHECK_DEADLOCK FALSE
