------------------------------ MODULE SfntObs ------------------------------
(***************************************************************************)
(* C05 observation validation: env OBS = ndjson file, one record per       *)
(* compiled font as measured by `vh sfnt` (vocabulary: Sfnt.tla).  One     *)
(* state per record (binary tree over the indices, so that TLC's workers   *)
(* share the records); the invariant evaluates Sfnt!Fields on it, prints   *)
(*   <<"FAIL", json of [id, field, stored, required, level, at]>>          *)
(* for every requirement that does not hold and                            *)
(*   <<"CHECKED", id, #requirements, #failing>>.                           *)
(***************************************************************************)
EXTENDS Sfnt

VARIABLE gi

Rec == ndJsonDeserialize(IOEnv.OBS)

ObsInit == gi = 1
ObsNext == \E j \in {2 * gi, 2 * gi + 1} : j <= Len(Rec) /\ gi' = j

Report(F) ==
    LET all == Fields(F)
        bad == SelectSeq(all, LAMBDA x : ~x.ok)
    IN /\ \A i \in Idx(bad) :
             PrintT(<<"FAIL", ToJson([id |-> F.id, f |-> bad[i].f, s |-> bad[i].s, d |-> bad[i].d,
                                      lvl |-> bad[i].lvl,
                                      at |-> IF "at" \in DOMAIN bad[i] THEN bad[i].at ELSE ""])>>)
       /\ PrintT(<<"CHECKED", F.id, Len(all), Len(bad)>>)
ObsChecked == gi <= Len(Rec) => Report(Rec[gi])
=============================================================================
