\* C03/C04 observation mode: env OBS = ndjson file of observation records (one per compiled font); the invariant
\* evaluates the acceptance relation of Instancing.tla on every record and prints a VERDICT line.
\* NAxes is unused here (the relation is constant-free); coordinates are scaled by the record's `scale` (1024),
\* tents/locations are F2Dot14 bits.
CONSTANTS
  NAxes = 1
INIT ObsInit
NEXT ObsNext
INVARIANT Verdict
CHECK_DEADLOCK FALSE
