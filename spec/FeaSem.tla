------------------------------ MODULE FeaSem ------------------------------
(***************************************************************************)
(* C11: the meaning of a feature file.                                     *)
(*                                                                         *)
(* An ABSTRACT FEATURE PROGRAM is a record                                 *)
(*   [ls, cls, marks, alpha, top]                                          *)
(*     ls    : <<script, language>> pairs of the languagesystem statements *)
(*     cls   : named glyph classes, cls[k] is the member list of @C<k>     *)
(*     marks : glyphs of GDEF class 3 (mark)                               *)
(*     alpha : the glyphs input strings are drawn from                     *)
(*     top   : top-level blocks                                            *)
(*       [k |-> "L", name |-> n, body |-> stmts]   lookup L<n> {..} L<n>;  *)
(*       [k |-> "F", tag |-> t,  body |-> stmts]   feature t {..} t;       *)
(*   stmts: [k |-> "flag", v |-> 0|8|100+c|200+c]  lookupflag 0; / IgnoreMarks;*)
(*             / UseMarkFilteringSet @C<c>; / MarkAttachmentType @C<c>;      *)
(*          [k |-> "script", tag |-> s]     script s;                      *)
(*          [k |-> "lang", tag |-> l, excl |-> B]  language l [exclude_dflt]; *)
(*          [k |-> "ref", name |-> n]       lookup L<n>;                   *)
(*          [k |-> "L", name, body]         named lookup block in a feature*)
(*          [k |-> "R", r |-> rule]                                        *)
(*   rules: [t |-> "ss", from |-> gc, to |-> gc]        sub from by to;    *)
(*          [t |-> "ms", from |-> gc, to |-> <<g..>>]   sub a by b c;      *)
(*          [t |-> "ls", comps |-> <<gc..>>, to |-> g]  sub a b by c;      *)
(*          [t |-> "cs", back, inp, look, inl, ign]     (ignore) sub x a' lookup L b' y (by ..); *)
(*               inp[j] = [g |-> gc, lk |-> <<names>>]                     *)
(*               inl = <<>> | <<[t |-> "ss", to |-> gc]>> (one marked glyph)*)
(*                   | <<[t |-> "ls", to |-> g]>>  (ligature of the whole input) *)
(*                   | <<[t |-> "ms", to |-> <<g..>>]>> (one marked glyph) *)
(*          [t |-> "sp", g |-> gc, v |-> n]             pos g n;           *)
(*          [t |-> "pp", a |-> gc, b |-> gc, v |-> n]   pos a b n;         *)
(*   gc (glyph or class): [f |-> "g", gs |-> <<g>>]  glyph                 *)
(*                        [f |-> "c", gs |-> <<g..>>] literal class [..]   *)
(*                        [f |-> "r", gs |-> <<lo,hi>>] range [lo-hi]      *)
(*                        [f |-> "n", gs |-> <<k>>]  named class @C<k>     *)
(* Glyphs are glyph ids (positive integers); the generated universe uses   *)
(* a=1 b=2 c=3 d=4 m=5 (m is a mark).                                      *)
(*                                                                         *)
(* Compile(p) is the meaning the feature-file specification gives to the   *)
(* statement sequence: lookups in declaration order, the registration      *)
(* relation (script, language, feature) -> lookups, and a well-formedness  *)
(* verdict (constructs the specification leaves open are rejected, see     *)
(* docs/C11.md).  Shape is the OpenType application of the selected        *)
(* lookups to a glyph string.  Both are total TLA+ operators evaluated by  *)
(* TLC; nothing here looks at fea-rs.                                      *)
(***************************************************************************)
EXTENDS Integers, Sequences, FiniteSets, TLC, Json

\* Generators A and B enumerate the candidates whose running index i satisfies i % Stride = Offset
\* (Stride = 1, Offset = 0: all of them; the quick tier thins the enumeration, the selection is seeded).
CONSTANTS Stride, Offset

SetOf(s) == {s[k] : k \in 1..Len(s)}
MinOf(S) == CHOOSE x \in S : \A y \in S : x <= y

---------------------------------------------------------------------------
(* glyph classes *)

Expand(p, x) ==
  CASE x.f = "g" -> x.gs
    [] x.f = "c" -> x.gs
    [] x.f = "r" -> [k \in 1..(x.gs[2] - x.gs[1] + 1) |-> x.gs[1] + k - 1]
    [] x.f = "n" -> p.cls[x.gs[1]]

IsClass(x) == x.f # "g"
NoDup(s) == Cardinality(SetOf(s)) = Len(s)

---------------------------------------------------------------------------
(* Resolution of one source rule into sets / maps.  `names` is the         *)
(* sequence of <<name, lookup index>> pairs known at this point.           *)

NameIdx(names, n) ==
  LET S == {k \in 1..Len(names) : names[k][1] = n}
  IN IF S = {} THEN 0 ELSE names[MinOf(S)][2]

\* sub FROM by TO: the k-th member of FROM maps to the k-th member of TO (or to the glyph TO)
SingleMap(p, from, to) ==
  LET fs == Expand(p, from)
      ts == Expand(p, to)
  IN [g \in SetOf(fs) |->
        LET k == MinOf({j \in 1..Len(fs) : fs[j] = g})
        IN IF Len(ts) = 1 THEN ts[1] ELSE ts[k]]

SingleOk(p, from, to) ==
  LET fs == Expand(p, from)
      ts == Expand(p, to)
  IN /\ Len(fs) >= 1 /\ NoDup(fs)
     /\ Len(ts) = 1 \/ (IsClass(from) /\ Len(ts) = Len(fs))

Resolve(p, r, names) ==
  CASE r.t = "ss" -> [t |-> "ss", m |-> SingleMap(p, r.from, r.to)]
    [] r.t = "ms" -> [t |-> "ms", m |-> [g \in SetOf(Expand(p, r.from)) |-> r.to]]
    [] r.t = "ls" -> [t |-> "ls", comps |-> [k \in 1..Len(r.comps) |-> SetOf(Expand(p, r.comps[k]))],
                      to |-> r.to]
    [] r.t = "cs" ->
         [t |-> "cs",
          \* backtrack is written farthest-first; store nearest-first
          back |-> [k \in 1..Len(r.back) |-> SetOf(Expand(p, r.back[Len(r.back) + 1 - k]))],
          inp  |-> [k \in 1..Len(r.inp) |-> SetOf(Expand(p, r.inp[k].g))],
          look |-> [k \in 1..Len(r.look) |-> SetOf(Expand(p, r.look[k]))],
          ign  |-> r.ign,
          \* what happens at input position k, in order: the inline single substitution (it belongs to
          \* the marked glyph), then the named lookups
          act  |-> [k \in 1..Len(r.inp) |->
                      (IF r.inl # <<>> /\ r.inl[1].t = "ss" /\ k = 1
                         THEN <<[k |-> "m", m |-> SingleMap(p, r.inp[1].g, r.inl[1].to)]>> ELSE <<>>)
                      \o [j \in 1..Len(r.inp[k].lk) |-> [k |-> "l", idx |-> NameIdx(names, r.inp[k].lk[j])]]],
          inl  |-> IF r.inl # <<>> /\ r.inl[1].t \in {"ls", "ms"} THEN r.inl ELSE <<>>]
    [] r.t = "sp" -> [t |-> "sp", m |-> [g \in SetOf(Expand(p, r.g)) |-> r.v]]
    [] r.t = "pp" -> [t |-> "pp", a |-> SetOf(Expand(p, r.a)), b |-> SetOf(Expand(p, r.b)), v |-> r.v,
                      cl |-> IsClass(r.a) \/ IsClass(r.b)]

\* per-rule well-formedness (what the FEA specification requires of a single rule, within the model)
RuleOk(p, r, names, lks, flag) ==
  CASE r.t = "ss" -> SingleOk(p, r.from, r.to)
    [] r.t = "ms" -> Len(Expand(p, r.from)) = 1 /\ Len(r.to) >= 2
    [] r.t = "ls" -> Len(r.comps) >= 2 /\ \A k \in 1..Len(r.comps) : Len(Expand(p, r.comps[k])) >= 1
    [] r.t = "cs" ->
         /\ Len(r.inp) >= 1
         /\ r.ign => (r.inl = <<>> /\ \A k \in 1..Len(r.inp) : r.inp[k].lk = <<>>)
         /\ r.inl # <<>> =>
              /\ \A k \in 1..Len(r.inp) : r.inp[k].lk = <<>>
              /\ CASE r.inl[1].t = "ss" -> Len(r.inp) = 1 /\ SingleOk(p, r.inp[1].g, r.inl[1].to)
                   [] r.inl[1].t = "ms" -> Len(r.inp) = 1 /\ Len(Expand(p, r.inp[1].g)) = 1 /\ Len(r.inl[1].to) >= 2
                   [] r.inl[1].t = "ls" -> Len(r.inp) >= 2
         \* named nested lookups: defined earlier, single substitution (length preserving), and flagged
         \* like the calling lookup or not at all (anything else: the nested lookup could find the glyph it
         \* is applied to ignorable, which OpenType leaves to the shaper)
         /\ \A k \in 1..Len(r.inp) : \A j \in 1..Len(r.inp[k].lk) :
              LET i == NameIdx(names, r.inp[k].lk[j])
              IN i # 0 /\ lks[i].ty = "ss" /\ lks[i].fl \in {0, flag}
    [] r.t = "sp" -> Len(Expand(p, r.g)) >= 1
    [] r.t = "pp" -> Len(Expand(p, r.a)) >= 1 /\ Len(Expand(p, r.b)) >= 1

---------------------------------------------------------------------------
(* The statement walk.                                                     *)

Flatten(p) ==
  LET Stmts(body) ==
        LET F[i \in 0..Len(body)] ==
              IF i = 0 THEN <<>>
              ELSE F[i-1] \o (IF body[i].k = "L"
                                THEN <<[k |-> "Lbeg", name |-> body[i].name, alone |-> FALSE]>>
                                     \o body[i].body \o <<[k |-> "Lend", alone |-> FALSE]>>
                                ELSE <<body[i]>>)
        IN F[Len(body)]
      Block(b) ==
        IF b.k = "L"
          THEN <<[k |-> "Lbeg", name |-> b.name, alone |-> TRUE]>> \o b.body \o <<[k |-> "Lend", alone |-> TRUE]>>
          ELSE <<[k |-> "Fbeg", tag |-> b.tag]>> \o Stmts(b.body) \o <<[k |-> "Fend"]>>
      T[i \in 0..Len(p.top)] == IF i = 0 THEN <<>> ELSE T[i-1] \o Block(p.top[i])
  IN T[Len(p.top)]

DLS(p) == IF p.ls = <<>> THEN {<<"DFLT", "dflt">>} ELSE SetOf(p.ls)

St0 == [lk |-> <<>>, open |-> FALSE, names |-> <<>>, reg |-> {}, flag |-> 0, inF |-> "", inL |-> 0,
        mode |-> <<>>, fl0 |-> {}, sd |-> {}, ok |-> TRUE, why |-> {}, sinceRef |-> FALSE,
        flagUnk |-> FALSE, entryFlag |-> 0, nScript |-> 0, nLang |-> 0, lBlockLk |-> 0]

Bad(st, reason) == [st EXCEPT !.ok = FALSE, !.why = @ \cup {reason}]

\* register lookup idx for the language system(s) the walk is currently in
Register(p, st, idx) ==
  IF st.inF = "" THEN st
  ELSE IF st.mode = <<>>
    THEN [st EXCEPT !.reg = @ \cup {<<sl[1], sl[2], st.inF, idx>> : sl \in DLS(p)}, !.fl0 = @ \cup {idx}]
  ELSE IF st.mode[2] = "dflt"
    THEN [st EXCEPT !.reg = @ \cup {<<st.mode[1], "dflt", st.inF, idx>>}, !.sd = @ \cup {idx}]
  ELSE [st EXCEPT !.reg = @ \cup {<<st.mode[1], st.mode[2], st.inF, idx>>}]

TableOf(ty) == IF ty \in {"sp", "pp"} THEN "P" ELSE "S"

StepRule(p, st0, r) ==
  LET st1 == IF st0.flagUnk THEN Bad(st0, "lookupflag across a nested lookup block") ELSE st0
      n == Len(st1.lk)
      last == st1.lk[n]
      fresh == ~st1.open \/ last.ty # r.t \/ last.fl # st1.flag
      \* fea-rs (like makeotf) folds a single substitution into an adjacent multiple/ligature lookup; the
      \* FEA specification says a lookup is a run of rules of one type: left out of the model
      promo == st1.open /\ last.fl = st1.flag /\ last.ty # r.t
               /\ "ss" \in {last.ty, r.t} /\ ({last.ty, r.t} \cap {"ms", "ls"}) # {}
      st2 == IF promo THEN Bad(st1, "single next to multiple/ligature substitution") ELSE st1
      st3 == IF st2.inL # 0 /\ st2.lBlockLk # 0 /\ fresh THEN Bad(st2, "lookup block with mixed rules") ELSE st2
      st4 == IF RuleOk(p, r, st3.names, st3.lk, st3.flag) THEN st3 ELSE Bad(st3, "malformed rule")
      rr == Resolve(p, r, st4.names)
  IN IF ~st4.ok THEN st4
     ELSE IF fresh
       THEN LET idx == n + 1
                st5 == [st4 EXCEPT !.lk = Append(@, [tb |-> TableOf(r.t), fl |-> st4.flag, ty |-> r.t, rules |-> <<rr>>,
                                                      src |-> <<r>>]),
                                   !.open = TRUE, !.sinceRef = FALSE,
                                   !.names = IF st4.inL # 0 THEN Append(@, <<st4.inL, idx>>) ELSE @,
                                   !.lBlockLk = IF st4.inL # 0 THEN idx ELSE @]
            IN Register(p, st5, idx)
       ELSE LET st5 == IF st4.sinceRef THEN Bad(st4, "rule run continued across a lookup reference") ELSE st4
            IN [st5 EXCEPT !.lk[n].rules = Append(@, rr), !.lk[n].src = Append(@, r)]

Step(p, st, op) ==
  CASE op.k = "R" -> StepRule(p, st, op.r)
    [] op.k = "flag" -> [st EXCEPT !.flag = op.v, !.flagUnk = FALSE]
    [] op.k = "Fbeg" -> [st EXCEPT !.inF = op.tag, !.flag = 0, !.mode = <<>>, !.fl0 = {}, !.sd = {}, !.open = FALSE,
                                   !.flagUnk = FALSE, !.nScript = 0, !.nLang = 0, !.sinceRef = FALSE]
    [] op.k = "Fend" -> [st EXCEPT !.inF = "", !.open = FALSE, !.flag = 0, !.mode = <<>>]
    [] op.k = "Lbeg" ->
         LET st1 == IF st.inL # 0 THEN Bad(st, "nested lookup blocks") ELSE st
             st2 == IF NameIdx(st1.names, op.name) # 0 THEN Bad(st1, "lookup name defined twice") ELSE st1
         IN [st2 EXCEPT !.inL = op.name, !.open = FALSE, !.lBlockLk = 0, !.entryFlag = st.flag,
                        !.flag = IF op.alone THEN 0 ELSE @,
                        \* FEA: "defaults to 0 at the start of a named lookup block"; fea-rs/feaLib keep the
                        \* enclosing feature's flag.  Only modelled where both readings agree.
                        !.flagUnk = IF op.alone THEN FALSE ELSE (st.flag # 0 \/ st.flagUnk)]
    [] op.k = "Lend" ->
         LET st1 == IF st.lBlockLk = 0 THEN Bad(st, "empty lookup block") ELSE st
         IN [st1 EXCEPT !.inL = 0, !.open = FALSE, !.lBlockLk = 0,
                        !.flag = IF op.alone THEN 0 ELSE @,
                        \* does the block's lookupflag end with the block?  Only modelled where it cannot matter.
                        !.flagUnk = IF op.alone THEN FALSE ELSE (st.flag # 0 \/ st.entryFlag # 0)]
    [] op.k = "ref" ->
         LET i == NameIdx(st.names, op.name)
         IN IF i = 0 \/ st.inF = "" \/ st.inL # 0 THEN Bad(st, "bad lookup reference")
            ELSE [Register(p, st, i) EXCEPT !.sinceRef = TRUE]
    [] op.k = "script" ->
         LET st1 == IF st.inF = "" \/ st.inL # 0 \/ st.nScript > 0 THEN Bad(st, "script statement outside the model") ELSE st
         IN [st1 EXCEPT !.mode = <<op.tag, "dflt">>, !.flag = 0, !.flagUnk = FALSE, !.open = FALSE, !.sd = {},
                        !.nScript = @ + 1]
    [] op.k = "lang" ->
         LET okHere == st.inF # "" /\ st.inL = 0 /\ st.mode # <<>> /\ st.nLang = 0 /\ op.tag # "dflt"
                       /\ <<st.mode[1], op.tag>> \notin DLS(p)
             \* FEA 4.h says a language inherits "the top level default rules"; feaLib (and 4.b) give them only
             \* to languages of scripts whose dflt is a declared languagesystem: not modelled when it matters
             unclear == ~op.excl /\ st.mode # <<>> /\ <<st.mode[1], "dflt">> \notin DLS(p) /\ st.fl0 # {}
         IN IF ~okHere THEN Bad(st, "language statement outside the model")
            ELSE IF unclear THEN Bad(st, "language inheriting feature defaults of an undeclared script")
            ELSE LET s == st.mode[1]
                     inherited == IF op.excl THEN {}
                                  ELSE (IF <<s, "dflt">> \in DLS(p) THEN st.fl0 ELSE {}) \cup st.sd
                 IN [st EXCEPT !.mode = <<s, op.tag>>, !.open = FALSE, !.nLang = @ + 1,
                               !.reg = @ \cup {<<s, op.tag, st.inF, i>> : i \in inherited}]

Walk(p) ==
  LET ops == Flatten(p)
      W[i \in 0..Len(ops)] == IF i = 0 THEN St0 ELSE LET prev == W[i-1] IN IF prev.ok THEN Step(p, prev, ops[i]) ELSE prev
  IN W[Len(ops)]

---------------------------------------------------------------------------
(* Conditions on the rules that ended up in one lookup (what the FEA       *)
(* specification leaves to the implementation is excluded here).           *)

Disjoint(A, B) == A \cap B = {}
EqOrDisjoint(A, B) == A = B \/ Disjoint(A, B)

LookupOk(L) ==
  LET n == Len(L.rules)
      R == L.rules
  IN CASE L.ty \in {"ss", "ms", "sp"} ->
            \A i \in 1..n : \A j \in (i+1)..n : Disjoint(DOMAIN R[i].m, DOMAIN R[j].m)
       [] L.ty = "ls" ->
            \* no two rules spell the same component string
            \A i \in 1..n : \A j \in (i+1)..n :
               Len(R[i].comps) # Len(R[j].comps)
               \/ \E k \in 1..Len(R[i].comps) : Disjoint(R[i].comps[k], R[j].comps[k])
       [] L.ty = "pp" ->
            /\ \A i \in 1..n : \A j \in (i+1)..n :
                 \* specific pairs come before class pairs
                 /\ R[i].cl => R[j].cl
                 /\ (~R[i].cl /\ ~R[j].cl) => (R[i].a # R[j].a \/ R[i].b # R[j].b)
                 \* class pairs of one lookup fit one class-pair subtable: how later subtables behave
                 \* behind an earlier one ("class 0") is implementation dependent
                 /\ (R[i].cl /\ R[j].cl) =>
                      /\ EqOrDisjoint(R[i].a, R[j].a) /\ EqOrDisjoint(R[i].b, R[j].b)
                      /\ ~(R[i].a = R[j].a /\ R[i].b = R[j].b)
       [] OTHER -> TRUE

Compile(p) ==
  LET w == Walk(p)
      \* a glyph has one mark attachment class: the classes named by MarkAttachmentType must not overlap
      mats == {SetOf(p.cls[w.lk[i].fl - 200]) : i \in {j \in 1..Len(w.lk) : w.lk[j].fl > 200}}
      okL == /\ w.ok
             /\ \A i \in 1..Len(w.lk) : LookupOk(w.lk[i])
             /\ \A A \in mats : \A B \in mats : EqOrDisjoint(A, B)
  IN [lk |-> w.lk, reg |-> w.reg, ok |-> okL,
      why |-> IF w.ok /\ ~okL THEN {"overlapping rules in one lookup"} ELSE w.why,
      marks |-> SetOf(p.marks), cls |-> p.cls]

---------------------------------------------------------------------------
(* OpenType application.  E = [lk, marks, cls]; fl = lookup flag:           *)
(* 8 IgnoreMarks: every mark is skipped; 100+c UseMarkFilteringSet @C<c>:   *)
(* marks not in the set are skipped; 200+c MarkAttachmentType @C<c>: marks  *)
(* of another attachment class (not in the class) are skipped.  Only marks  *)
(* are ever skipped by these flags.                                         *)

Ign(E, fl, g) ==
  /\ g \in E.marks
  /\ \/ fl = 8
     \/ fl > 200 /\ g \notin SetOf(E.cls[fl - 200])
     \/ fl > 100 /\ fl < 200 /\ g \notin SetOf(E.cls[fl - 100])

RECURSIVE Nxt(_, _, _, _)
Nxt(E, fl, gs, i) == IF i > Len(gs) THEN i ELSE IF Ign(E, fl, gs[i]) THEN Nxt(E, fl, gs, i + 1) ELSE i
RECURSIVE Prv(_, _, _, _)
Prv(E, fl, gs, i) == IF i < 1 THEN 0 ELSE IF Ign(E, fl, gs[i]) THEN Prv(E, fl, gs, i - 1) ELSE i

\* positions matched by pat[k..] from position i on, skipping ignorable glyphs; <<0>> = no match
RECURSIVE MF(_, _, _, _, _, _)
MF(E, fl, gs, i, pat, k) ==
  IF k > Len(pat) THEN <<>>
  ELSE LET j == Nxt(E, fl, gs, i)
       IN IF j > Len(gs) THEN <<0>>
          ELSE IF gs[j] \notin pat[k] THEN <<0>>
          ELSE LET rest == MF(E, fl, gs, j + 1, pat, k + 1)
               IN IF rest = <<0>> THEN <<0>> ELSE <<j>> \o rest

RECURSIVE MB(_, _, _, _, _, _)
MB(E, fl, gs, i, pat, k) ==
  IF k > Len(pat) THEN TRUE
  ELSE LET j == Prv(E, fl, gs, i)
       IN IF j < 1 THEN FALSE
          ELSE IF gs[j] \notin pat[k] THEN FALSE
          ELSE MB(E, fl, gs, j - 1, pat, k + 1)

FirstK(n, P(_)) == LET S == {k \in 1..n : P(k)} IN IF S = {} THEN 0 ELSE MinOf(S)

ReplaceAt(gs, i, new) == SubSeq(gs, 1, i - 1) \o new \o SubSeq(gs, i + 1, Len(gs))
RemoveAt(gs, S) ==
  LET idx == SelectSeq([k \in 1..Len(gs) |-> k], LAMBDA k : k \notin S)
  IN [k \in 1..Len(idx) |-> gs[idx[k]]]

\* ligature: glyph at pos[1] becomes `to`, the other matched components disappear, skipped glyphs stay
Ligate(gs, pos, to) == RemoveAt([gs EXCEPT ![pos[1]] = to], {pos[k] : k \in 2..Len(pos)})

\* a single-substitution lookup applied to one glyph
SingleOn(L, g) ==
  LET k == FirstK(Len(L.rules), LAMBDA j : g \in DOMAIN L.rules[j].m)
  IN IF k = 0 THEN g ELSE L.rules[k].m[g]

RECURSIVE ActOn(_, _, _, _)
ActOn(E, g, acts, k) ==
  IF k > Len(acts) THEN g
  ELSE LET a == acts[k]
           g2 == IF a.k = "m" THEN (IF g \in DOMAIN a.m THEN a.m[g] ELSE g) ELSE SingleOn(E.lk[a.idx], g)
       IN ActOn(E, g2, acts, k + 1)

CtxMatch(E, fl, gs, i, r) ==
  LET ip == MF(E, fl, gs, i, r.inp, 1)
  IN IF ip = <<0>> THEN <<>>
     ELSE IF /\ MB(E, fl, gs, i - 1, r.back, 1)
             /\ MF(E, fl, gs, ip[Len(ip)] + 1, r.look, 1) # <<0>>
          THEN ip ELSE <<>>

\* result of trying GSUB lookup L at (non-ignorable) position i: <<>> if no rule applies, else <<gs', next i>>
SubAt(E, L, gs, i) ==
  LET n == Len(L.rules)
      g == gs[i]
  IN CASE L.ty = "ss" ->
            LET k == FirstK(n, LAMBDA j : g \in DOMAIN L.rules[j].m)
            IN IF k = 0 THEN <<>> ELSE <<[gs EXCEPT ![i] = L.rules[k].m[g]], i + 1>>
       [] L.ty = "ms" ->
            LET k == FirstK(n, LAMBDA j : g \in DOMAIN L.rules[j].m)
            IN IF k = 0 THEN <<>> ELSE <<ReplaceAt(gs, i, L.rules[k].m[g]), i + Len(L.rules[k].m[g])>>
       [] L.ty = "ls" ->
            \* FEA 5.d: the implementation orders the ligature rules of a lookup; the longest match wins
            LET M == {j \in 1..n : MF(E, L.fl, gs, i, L.rules[j].comps, 1) # <<0>>}
            IN IF M = {} THEN <<>>
               ELSE LET k == CHOOSE j \in M : \A j2 \in M : Len(L.rules[j].comps) >= Len(L.rules[j2].comps)
                        pos == MF(E, L.fl, gs, i, L.rules[k].comps, 1)
                    IN <<Ligate(gs, pos, L.rules[k].to), i + 1>>
       [] L.ty = "cs" ->
            LET k == FirstK(n, LAMBDA j : CtxMatch(E, L.fl, gs, i, L.rules[j]) # <<>>)
            IN IF k = 0 THEN <<>>
               ELSE LET r == L.rules[k]
                        ip == CtxMatch(E, L.fl, gs, i, r)
                        last == ip[Len(ip)]
                    IN IF r.ign THEN <<gs, last + 1>>
                       ELSE IF r.inl # <<>> /\ r.inl[1].t = "ls"
                         THEN <<Ligate(gs, ip, r.inl[1].to), last + 2 - Len(ip)>>
                       ELSE IF r.inl # <<>> /\ r.inl[1].t = "ms"
                         THEN <<ReplaceAt(gs, i, r.inl[1].to), i + Len(r.inl[1].to)>>
                       ELSE <<[q \in 1..Len(gs) |->
                                 IF q \in SetOf(ip)
                                   THEN ActOn(E, gs[q], r.act[MinOf({j \in 1..Len(ip) : ip[j] = q})], 1)
                                   ELSE gs[q]],
                              last + 1>>

RECURSIVE RunS(_, _, _, _)
RunS(E, L, gs, i) ==
  IF i > Len(gs) THEN gs
  ELSE IF Ign(E, L.fl, gs[i]) THEN RunS(E, L, gs, i + 1)
  ELSE LET r == SubAt(E, L, gs, i)
       IN IF r = <<>> THEN RunS(E, L, gs, i + 1) ELSE RunS(E, L, r[1], r[2])

\* GPOS: the glyphs are fixed, adv accumulates xAdvance adjustments
RECURSIVE RunP(_, _, _, _, _)
RunP(E, L, gs, adv, i) ==
  IF i > Len(gs) THEN adv
  ELSE IF Ign(E, L.fl, gs[i]) THEN RunP(E, L, gs, adv, i + 1)
  ELSE IF L.ty = "sp"
    THEN LET k == FirstK(Len(L.rules), LAMBDA j : gs[i] \in DOMAIN L.rules[j].m)
         IN RunP(E, L, gs, IF k = 0 THEN adv ELSE [adv EXCEPT ![i] = @ + L.rules[k].m[gs[i]]], i + 1)
  ELSE \* "pp": the second glyph is the next one that is not ignored; only the first glyph is adjusted,
       \* so the second glyph is the first glyph of the next pair
       LET j == Nxt(E, L.fl, gs, i + 1)
       IN IF j > Len(gs) THEN adv
          ELSE LET k == FirstK(Len(L.rules), LAMBDA q : gs[i] \in L.rules[q].a /\ gs[j] \in L.rules[q].b)
               IN RunP(E, L, gs, IF k = 0 THEN adv ELSE [adv EXCEPT ![i] = @ + L.rules[k].v], i + 1)

\* K: set of lookup indices selected by the enabled features; applied in index order, GSUB before GPOS
RECURSIVE AllS(_, _, _, _)
AllS(E, K, gs, i) ==
  IF i > Len(E.lk) THEN gs
  ELSE AllS(E, K, IF i \in K /\ E.lk[i].tb = "S" THEN RunS(E, E.lk[i], gs, 1) ELSE gs, i + 1)
RECURSIVE AllP(_, _, _, _, _)
AllP(E, K, gs, adv, i) ==
  IF i > Len(E.lk) THEN adv
  ELSE AllP(E, K, gs, IF i \in K /\ E.lk[i].tb = "P" THEN RunP(E, E.lk[i], gs, adv, 1) ELSE adv, i + 1)

ShapeK(E, K, gs) ==
  LET out == AllS(E, K, gs, 1)
  IN <<out, AllP(E, K, out, [k \in 1..Len(out) |-> 0], 1)>>

Selected(C, script, lang, feats) == {x[4] : x \in {y \in C.reg : y[1] = script /\ y[2] = lang /\ y[3] \in feats}}

\* the property's right-hand side
Shape(p, script, lang, feats, gs) == LET C == Compile(p) IN ShapeK(C, Selected(C, script, lang, feats), gs)

---------------------------------------------------------------------------
(* Input strings: all strings of length 1..3 over p.alpha, in the order    *)
(* length, then lexicographic by alphabet position (index n = 1..A+A^2+A^3) *)

StringAt(alpha, n) ==
  LET A == Len(alpha)
  IN IF n <= A THEN <<alpha[n]>>
     ELSE IF n <= A + A * A
       THEN LET q == n - A - 1 IN <<alpha[(q \div A) + 1], alpha[(q % A) + 1]>>
     ELSE LET q == n - A - A * A - 1
          IN <<alpha[(q \div (A * A)) + 1], alpha[((q \div A) % A) + 1], alpha[(q % A) + 1]>>
NStrings(alpha) == LET A == Len(alpha) IN A + A * A + A * A * A

\* expected observation of one program: for every registered (script, language) and every non-empty set
\* of the program's feature tags, the strings whose shaping is not the identity (sparse)
Tags(C) == {x[3] : x \in C.reg}
Systems(C) == {<<x[1], x[2]>> : x \in C.reg}

RECURSIVE SetToSeq(_)
SetToSeq(S) == IF S = {} THEN <<>> ELSE LET x == CHOOSE y \in S : TRUE IN <<x>> \o SetToSeq(S \ {x})

\* strings (by index n <= N) whose shaping is not the identity, with what they become
RECURSIVE Changed(_, _, _, _)
Changed(C, alpha, K, n) ==
  IF n = 0 THEN <<>>
  ELSE LET in == StringAt(alpha, n)
           r == ShapeK(C, K, in)
       IN Changed(C, alpha, K, n - 1)
          \o (IF r[1] # in \/ \E q \in 1..Len(r[2]) : r[2][q] # 0 THEN << <<n, r[1], r[2]>> >> ELSE <<>>)

Expected(p) ==
  LET C == Compile(p)
      combos == SetToSeq({<<sl[1], sl[2], SetToSeq(fs)>> : sl \in Systems(C), fs \in (SUBSET Tags(C)) \ {{}}})
      keyOf(c) == Selected(C, c[1], c[2], SetOf(c[3]))
      keys == SetToSeq({keyOf(combos[i]) : i \in 1..Len(combos)})
      N == NStrings(p.alpha)
      Res(K) == Changed(C, p.alpha, K, N)
  IN IF ~C.ok THEN [ok |-> FALSE, why |-> SetToSeq(C.why)]
     ELSE [ok |-> TRUE,
           nlk |-> Len(C.lk),
           combos |-> [i \in 1..Len(combos) |->
                         <<combos[i][1], combos[i][2], combos[i][3],
                           MinOf({k \in 1..Len(keys) : keys[k] = keyOf(combos[i])})>>],
           res |-> [k \in 1..Len(keys) |-> Res(keys[k])]]

---------------------------------------------------------------------------
(* The generated universe.  a=1 b=2 c=3 d=4 m=5 (mark).                    *)

G(x) == [f |-> "g", gs |-> <<x>>]
Cl(s) == [f |-> "c", gs |-> s]
Rg(lo, hi) == [f |-> "r", gs |-> <<lo, hi>>]
Nm(k) == [f |-> "n", gs |-> <<k>>]

SS(from, to) == [t |-> "ss", from |-> from, to |-> to]
MS(from, to) == [t |-> "ms", from |-> G(from), to |-> to]
LS(comps, to) == [t |-> "ls", comps |-> comps, to |-> to]
In(g) == [g |-> g, lk |-> <<>>]
InL(g, lk) == [g |-> g, lk |-> lk]
CS(back, inp, look, inl) == [t |-> "cs", back |-> back, inp |-> inp, look |-> look, inl |-> inl, ign |-> FALSE]
IGN(back, inp, look) == [t |-> "cs", back |-> back, inp |-> inp, look |-> look, inl |-> <<>>, ign |-> TRUE]
ISS(to) == <<[t |-> "ss", to |-> to]>>
ILS(to) == <<[t |-> "ls", to |-> to]>>
IMS(to) == <<[t |-> "ms", to |-> to]>>
SP(g, v) == [t |-> "sp", g |-> g, v |-> v]
PP(a, b, v) == [t |-> "pp", a |-> a, b |-> b, v |-> v]

\* @C1 = [a b]; @C2 = [c d]; @C3 = [d c]; @C4 = [m]; @C5 = [n]; @C6 = [m n];   (m = 5 and n = 6 are marks)
NamedClasses == << <<1, 2>>, <<3, 4>>, <<4, 3>>, <<5>>, <<6>>, <<5, 6>> >>

USS == << SS(G(1), G(2)), SS(G(2), G(3)), SS(G(3), G(1)), SS(Cl(<<1, 2>>), G(4)),
          SS(Cl(<<1, 2>>), Cl(<<3, 4>>)), SS(Cl(<<2, 1>>), Cl(<<3, 4>>)), SS(Rg(1, 3), G(4)),
          SS(Rg(1, 3), Rg(2, 4)), SS(Nm(1), Nm(3)), SS(G(5), G(1)), SS(G(4), G(5)),
          SS(Cl(<<3, 4>>), Cl(<<4, 3>>)) >>
UMS == << MS(1, <<2, 3>>), MS(2, <<1, 5>>), MS(3, <<4, 4>>), MS(1, <<1, 1>>) >>
ULS == << LS(<<G(1), G(2)>>, 3), LS(<<G(1), G(2), G(3)>>, 4), LS(<<G(2), G(3)>>, 1),
          LS(<<Cl(<<1, 2>>), G(3)>>, 4), LS(<<G(1), G(5)>>, 2), LS(<<G(3), G(3)>>, 3),
          LS(<<G(1), G(1)>>, 2) >>
\* contextual rules; the named lookups 8 and 9 are the helper blocks HelperLookups below
UCS == << CS(<<>>, <<In(G(1))>>, <<G(2)>>, ISS(G(3))),                          \* sub a' b by c;
          CS(<<G(1)>>, <<In(G(2))>>, <<>>, ISS(G(4))),                          \* sub a b' by d;
          CS(<<>>, <<In(G(1)), In(G(2))>>, <<>>, ILS(3)),                       \* sub a' b' by c;
          CS(<<>>, <<In(Cl(<<1, 2>>))>>, <<G(3)>>, ISS(Cl(<<3, 4>>))),          \* sub [a b]' c by [c d];
          CS(<<>>, <<InL(G(1), <<8>>), InL(G(2), <<9>>)>>, <<>>, <<>>),         \* sub a' lookup L8 b' lookup L9;
          IGN(<<G(1)>>, <<In(G(2))>>, <<>>),                                    \* ignore sub a b';
          CS(<<>>, <<In(G(2))>>, <<G(3)>>, ISS(G(4))),                          \* sub b' c by d;
          CS(<<G(3)>>, <<In(G(1)), In(G(2))>>, <<>>, ILS(4)),                   \* sub c a' b' by d;
          CS(<<>>, <<In(G(1)), InL(G(2), <<8>>)>>, <<>>, <<>>),                 \* sub a' b' lookup L8;
          CS(<<>>, <<In(G(1))>>, <<G(5)>>, ISS(G(2))),                          \* sub a' m by b;
          CS(<<G(1)>>, <<In(G(2))>>, <<G(3)>>, ISS(G(4))),                      \* sub a b' c by d;
          CS(<<>>, <<InL(Cl(<<1, 2>>), <<8>>)>>, <<G(3)>>, <<>>),               \* sub [a b]' lookup L8 c;
          CS(<<G(1)>>, <<In(G(1))>>, <<>>, ISS(G(2))),                          \* sub a a' by b;
          CS(<<>>, <<In(G(1))>>, <<G(2)>>, IMS(<<2, 3>>)),                      \* sub a' b by b c;
          CS(<<G(4), Cl(<<1, 2>>)>>, <<In(G(3))>>, <<>>, ISS(G(1))),            \* sub d [a b] c' by a;
          IGN(<<>>, <<In(G(1))>>, <<G(2), G(3)>>) >>                            \* ignore sub a' b c;
USP == << SP(G(1), -10), SP(Cl(<<1, 2>>), 20), SP(G(5), 5), SP(G(2), -7), SP(Nm(2), 30), SP(Rg(1, 3), 11) >>
UPP == << PP(G(1), G(2), -10), PP(G(1), G(3), -20), PP(G(2), G(5), 7), PP(G(1), G(1), 3), PP(G(5), G(1), 2),
          PP(Cl(<<1, 2>>), Cl(<<3, 4>>), -30), PP(Cl(<<1, 2>>), Cl(<<1, 2>>), 15), PP(Cl(<<3, 4>>), Cl(<<1, 5>>), 9),
          PP(Nm(2), Nm(1), -4), PP(G(3), Cl(<<1, 2>>), -8) >>

Univ == [ss |-> USS, ms |-> UMS, ls |-> ULS, cs |-> UCS, sp |-> USP, pp |-> UPP]
Types == {"ss", "ms", "ls", "cs", "sp", "pp"}

\* the reduced universe of the two-lookup programs
Reduced == << USS[1], USS[2], USS[5], UMS[1], UMS[4], ULS[1], ULS[5], UCS[1], UCS[2], UCS[5], UCS[6],
              USP[1], USP[3], UPP[1], UPP[6] >>

Flag(v) == [k |-> "flag", v |-> v]
Rule(r) == [k |-> "R", r |-> r]
Ref(n) == [k |-> "ref", name |-> n]
Script(s) == [k |-> "script", tag |-> s]
Lang(l, x) == [k |-> "lang", tag |-> l, excl |-> x]
Named(n, body) == [k |-> "L", name |-> n, body |-> body]
Feat(tag, body) == [k |-> "F", tag |-> tag, body |-> body]

\* a slot is the text of one intended lookup: fl = -1 (no lookupflag statement), 0 or 8, and its rules
Stm(s) == (IF s.fl = -1 THEN <<>> ELSE <<Flag(s.fl)>>) \o [i \in 1..Len(s.rules) |-> Rule(s.rules[i])]
Slot(fl, rules) == [fl |-> fl, rules |-> rules]

HelperLookups == << Named(8, <<Rule(SS(G(2), G(4))), Rule(SS(G(1), G(3)))>>),   \* lookup L8 { sub b by d; sub a by c; } L8;
                    Named(9, <<Rule(SS(G(2), G(1)))>>) >>                        \* lookup L9 { sub b by a; } L9;

UsesHelpers(slots) ==
  \E i \in 1..Len(slots) : \E j \in 1..Len(slots[i].rules) :
     LET r == slots[i].rules[j] IN r.t = "cs" /\ \E k \in 1..Len(r.inp) : r.inp[k].lk # <<>>

F1 == "liga"
F2 == "kern"
LsD  == << <<"DFLT", "dflt">> >>
LsDL == << <<"DFLT", "dflt">>, <<"latn", "dflt">> >>

\* input alphabet: a b c d m, or a b c m n when some lookupflag names a mark set / attachment class
UsesSets(slots) == \E i \in 1..Len(slots) : slots[i].fl >= 100
Prog(ls, slots, top) ==
  [ls |-> ls, cls |-> NamedClasses, marks |-> <<5, 6>>,
   alpha |-> IF UsesSets(slots) THEN <<1, 2, 3, 5, 6>> ELSE <<1, 2, 3, 4, 5>>,
   top |-> (IF UsesHelpers(slots) THEN HelperLookups ELSE <<>>) \o top]

TplSeq1 == <<"anon", "nested", "ref">>
TplSeq2 == <<"aa", "ra", "ff", "sc", "sc0", "lg", "lgx", "lgx0", "nr", "same">>
Templates1 == SetOf(TplSeq1)
Templates2 == SetOf(TplSeq2)
Templates3 == {"aaa", "raf", "scl", "sclx", "sclx0", "fnf", "ffs", "nan"}

Build(tpl, s) ==
  LET X == s[1]
      Y == IF Len(s) >= 2 THEN s[2] ELSE s[1]
      Z == IF Len(s) >= 3 THEN s[3] ELSE s[1]
  IN CASE tpl = "anon"   -> Prog(<<>>, s, <<Feat(F1, Stm(X))>>)
       [] tpl = "nested" -> Prog(<<>>, s, <<Feat(F1, <<Named(1, Stm(X))>>)>>)
       [] tpl = "ref"    -> Prog(LsD, s, <<Named(1, Stm(X)), Feat(F1, <<Ref(1)>>)>>)
       [] tpl = "aa"     -> Prog(<<>>, s, <<Feat(F1, Stm(X) \o Stm(Y))>>)
       [] tpl = "ra"     -> Prog(<<>>, s, <<Named(1, Stm(Y)), Feat(F1, Stm(X) \o <<Ref(1)>>)>>)
       [] tpl = "ff"     -> Prog(LsD, s, <<Feat(F1, Stm(X)), Feat(F2, Stm(Y))>>)
       [] tpl = "sc"     -> Prog(LsDL, s, <<Feat(F1, Stm(X) \o <<Script("latn")>> \o Stm(Y))>>)
       [] tpl = "sc0"    -> Prog(LsD, s, <<Feat(F1, Stm(X) \o <<Script("latn")>> \o Stm(Y))>>)
       [] tpl = "lg"     -> Prog(LsDL, s, <<Feat(F1, Stm(X) \o <<Script("latn"), Lang("TRK ", FALSE)>> \o Stm(Y))>>)
       [] tpl = "lgx"    -> Prog(LsDL, s, <<Feat(F1, Stm(X) \o <<Script("latn"), Lang("TRK ", TRUE)>> \o Stm(Y))>>)
       [] tpl = "lgx0"   -> Prog(LsD, s, <<Feat(F1, Stm(X) \o <<Script("latn"), Lang("TRK ", TRUE)>> \o Stm(Y))>>)
       [] tpl = "nr"     -> Prog(<<>>, s, <<Feat(F1, <<Named(1, Stm(X))>>), Feat(F2, <<Ref(1)>> \o Stm(Y))>>)
       [] tpl = "same"   -> Prog(<<>>, s, <<Feat(F1, Stm(X)), Feat(F1, Stm(Y))>>)
       [] tpl = "aaa"    -> Prog(<<>>, s, <<Feat(F1, Stm(X) \o Stm(Y) \o Stm(Z))>>)
       [] tpl = "raf"    -> Prog(LsD, s, <<Named(1, Stm(Z)), Feat(F1, Stm(X) \o <<Ref(1)>>), Feat(F2, Stm(Y) \o <<Ref(1)>>)>>)
       [] tpl = "scl"    -> Prog(LsDL, s, <<Feat(F1, Stm(X) \o <<Script("latn")>> \o Stm(Y) \o <<Lang("TRK ", FALSE)>> \o Stm(Z))>>)
       [] tpl = "sclx"   -> Prog(LsDL, s, <<Feat(F1, Stm(X) \o <<Script("latn")>> \o Stm(Y) \o <<Lang("TRK ", TRUE)>> \o Stm(Z))>>)
       [] tpl = "sclx0"  -> Prog(LsD, s, <<Feat(F1, Stm(X) \o <<Script("latn")>> \o Stm(Y) \o <<Lang("TRK ", TRUE)>> \o Stm(Z))>>)
       [] tpl = "fnf"    -> Prog(<<>>, s, <<Feat(F1, Stm(X) \o <<Named(1, Stm(Y))>>), Feat(F2, <<Ref(1)>> \o Stm(Z))>>)
       [] tpl = "ffs"    -> Prog(LsDL, s, <<Feat(F1, Stm(X)), Feat(F2, Stm(Y) \o <<Script("latn")>> \o Stm(Z))>>)
       [] tpl = "nan"    -> Prog(<<>>, s, <<Feat(F1, <<Named(1, Stm(X))>> \o Stm(Y) \o <<Named(2, Stm(Z))>>)>>)

\* ---- generator A: every single-lookup program with one or two rules of one type.
\* States hold indices into the universes only (TLC cannot compare records of different shapes).
IdxSeqs12(n) == {<<i>> : i \in 1..n} \cup {x \in (1..n) \X (1..n) : x[1] # x[2]}
\* rules of one type that may share a lookup (LookupOk); only used to avoid generating candidates that the
\* evaluation would drop anyway -- the verdict is always Compile(p).ok
SlotOk(t, ix) ==
  LookupOk([ty |-> t, rules |-> [k \in 1..Len(ix) |->
              Resolve([cls |-> NamedClasses], Univ[t][ix[k]], << <<8, 1>>, <<9, 2>> >>)]])
OkIx == [t \in Types |-> {x \in IdxSeqs12(Len(Univ[t])) : SlotOk(t, x)}]
Keep(i) == i % Stride = Offset
TypeSeq == <<"ss", "ms", "ls", "cs", "sp", "pp">>
\* running index of an A candidate: (type, rule indices) in the order of RECURSIVE SetToSeq, then template, flag
RECURSIVE SetToSeqA(_)
SetToSeqA(S) == IF S = {} THEN <<>> ELSE LET x == CHOOSE y \in S : TRUE IN <<x>> \o SetToSeqA(S \ {x})
OkSeq == [t \in Types |-> SetToSeqA(OkIx[t])]
Before(k) == LET F[i \in 0..Len(TypeSeq)] == IF i = 0 THEN 0 ELSE F[i-1] + Len(OkSeq[TypeSeq[i]]) IN F[k - 1]
CasesA == UNION {{[tpl |-> TplSeq1[x[1]], slots |-> <<[fl |-> (IF x[2] = 0 THEN -1 ELSE 8), t |-> TypeSeq[k], ix |-> OkSeq[TypeSeq[k]][x[3]]]>>] :
                    x \in {y \in (1..Len(TplSeq1)) \X {0, 1} \X (1..Len(OkSeq[TypeSeq[k]])) :
                              Keep(((Before(k) + y[3] - 1) * 3 + (y[1] - 1)) * 2 + y[2])}} : k \in 1..Len(TypeSeq)}
\* ---- generator B: every two-lookup program, one rule each from the reduced universe ("red" slots)
NR == Len(Reduced)
FlagOf(c) == IF c = 0 THEN -1 ELSE IF c = 1 THEN 0 ELSE 8
CasesB == {[tpl |-> TplSeq2[x[1]], slots |-> <<[fl |-> FlagOf(2 * x[2]), t |-> "red", ix |-> <<x[4]>>],
                                               [fl |-> FlagOf(x[3]), t |-> "red", ix |-> <<x[5]>>]>>] :
             x \in {y \in (1..Len(TplSeq2)) \X {0, 1} \X {0, 1, 2} \X (1..NR) \X (1..NR) :
                       \/ Keep(((((y[1] - 1) * 2 + y[2]) * 3 + y[3]) * NR + (y[4] - 1)) * NR + (y[5] - 1))
                       \* never thinned: same feature block, same rule type, only the lookupflag separates the lookups
                       \/ /\ y[1] = 1 /\ Reduced[y[4]].t = Reduced[y[5]].t
                          /\ (y[2] = 0 /\ y[3] = 2) \/ (y[2] = 1 /\ y[3] = 1)}}

\* ---- generator D: two-lookup programs whose lookupflags name mark filtering sets / attachment classes
\* (and IgnoreMarks), one rule each from the mark-sensitive universe RedM
RedM == << USS[1], ULS[1], ULS[5], UCS[1], UCS[2], UCS[6], USP[3], UPP[1], UPP[6] >>
TplSeqD == <<"aa", "ra", "sc", "same">>
FlagsD == <<8, 104, 105, 204, 205>>
NM == Len(RedM)
CasesD == {[tpl |-> TplSeqD[x[1]], slots |-> <<[fl |-> FlagsD[x[2]], t |-> "redm", ix |-> <<x[4]>>],
                                               [fl |-> FlagsD[x[3]], t |-> "redm", ix |-> <<x[5]>>]>>] :
             x \in {y \in (1..Len(TplSeqD)) \X (1..Len(FlagsD)) \X (1..Len(FlagsD)) \X (1..NM) \X (1..NM) :
                       Keep(((((y[1] - 1) * Len(FlagsD) + y[2] - 1) * Len(FlagsD) + y[3] - 1) * NM + (y[4] - 1)) * NM + (y[5] - 1))}}

SlotOf(s) == Slot(s.fl, [k \in 1..Len(s.ix) |-> IF s.t = "red" THEN Reduced[s.ix[k]]
                                                ELSE IF s.t = "redm" THEN RedM[s.ix[k]] ELSE Univ[s.t][s.ix[k]]])
ProgOf(c) == Build(c.tpl, [k \in 1..Len(c.slots) |-> SlotOf(c.slots[k])])

VARIABLE st

\* generators A and B: one state per candidate
InitA == st \in CasesA
InitB == st \in CasesB
InitD == st \in CasesD
NextNone == UNCHANGED st

\* (whether a candidate is well-formed is decided when it is evaluated: FeaSemObs / Expected(p).ok)
EmitCase == PrintT(<<"REPLAY", ToJson([tpl |-> st.tpl, p |-> ProgOf(st),
                                       fl |-> [k \in 1..Len(st.slots) |-> st.slots[k].fl]])>>)

\* ---- generator C (tlc -simulate): a template with up to three slots of up to three rules
InitC == st = [phase |-> "tpl", tpl |-> "", slots |-> <<>>, want |-> 0, n |-> 0]
NextC ==
  \/ /\ st.phase = "tpl"
     /\ \E tpl \in Templates1 \cup Templates2 \cup Templates3 :
          st' = [st EXCEPT !.phase = "slot", !.tpl = tpl,
                           !.want = IF tpl \in Templates1 THEN 1 ELSE IF tpl \in Templates2 THEN 2 ELSE 3]
  \/ /\ st.phase = "slot"
     /\ \E t \in Types, fl \in {-1, 0, 8, 104, 105, 204}, n \in 1..3 :
          st' = [st EXCEPT !.phase = "rule", !.n = n, !.slots = Append(@, [fl |-> fl, t |-> t, ix |-> <<>>])]
  \/ /\ st.phase = "rule"
     /\ LET k == Len(st.slots)
            s == st.slots[k]
        IN IF Len(s.ix) < st.n
             THEN \E i \in 1..Len(Univ[s.t]) :
                    /\ i \notin SetOf(s.ix)
                    /\ SlotOk(s.t, Append(s.ix, i)) = TRUE   \* (= TRUE: evaluated as an expression, not as an action)
                    /\ st' = [st EXCEPT !.slots[k].ix = Append(@, i)]
             ELSE st' = [st EXCEPT !.phase = IF k = st.want THEN "done" ELSE "slot"]
  \/ /\ st.phase \in {"done", "end"}
     /\ st' = [st EXCEPT !.phase = "end"]

EmitSim ==
  IF st.phase # "done" THEN TRUE
  ELSE PrintT(<<"REPLAY", ToJson([tpl |-> st.tpl, p |-> ProgOf(st),
                                  fl |-> [k \in 1..Len(st.slots) |-> st.slots[k].fl]])>>)

=============================================================================
